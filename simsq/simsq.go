// Package verifsq builds reference data squares for the simulated worlds and
// checks every read path of an accessor against them (injected by overlay as
// internal/verifsq). The reference is the rsmt2d square and its share list;
// comparisons are byte comparisons, proofs are checked with the tree's own
// Verify methods (their soundness is property C01's business).
package verifsq

import (
	"bytes"
	"context"
	"fmt"
	mrand "math/rand/v2"
	"sort"

	libshare "github.com/celestiaorg/go-square/v4/share"
	"github.com/celestiaorg/rsmt2d"

	"github.com/celestiaorg/celestia-app/v9/pkg/wrapper"

	"github.com/celestiaorg/celestia-node/share"
	"github.com/celestiaorg/celestia-node/share/eds"
	"github.com/celestiaorg/celestia-node/share/shwap"
)

// Square is a reference block.
type Square struct {
	ODSW   int
	EDS    *rsmt2d.ExtendedDataSquare
	Roots  *share.AxisRoots
	Shares []libshare.Share // ODS, row-major, tail padding included
	Filled int              // number of non-tail-padding shares
	// Present are the distinct namespaces of the data shares (sorted); Absent are namespaces not in
	// the square: some between present ones (inside a row's range), one below and one above all.
	Present []libshare.Namespace
	Absent  []libshare.Namespace
}

func ns(id byte, sub byte) libshare.Namespace {
	b := bytes.Repeat([]byte{0}, libshare.NamespaceVersionZeroIDSize)
	b[len(b)-2], b[len(b)-1] = id, sub
	n, err := libshare.NewV0Namespace(b)
	if err != nil {
		panic(err)
	}
	return n
}

// Gen builds a valid square: odsW*odsW shares, the first `filled` are data
// shares of 1..k namespaces in ascending order, the rest tail padding.
// filled<0 picks a random amount; filled==0 yields the empty block.
func Gen(rng *mrand.Rand, odsW, filled int) *Square {
	total := odsW * odsW
	if filled < 0 {
		switch rng.IntN(4) {
		case 0:
			filled = total
		case 1:
			filled = 1
		default:
			filled = 1 + rng.IntN(total)
		}
	}
	if filled == 0 {
		return Empty()
	}
	if filled > total {
		filled = total
	}
	// namespaces: ids 2,4,6,... leave odd ids free as "absent inside"
	k := 1 + rng.IntN(min(4, filled))
	counts := make([]int, k)
	for i := range counts {
		counts[i] = 1
	}
	for i := k; i < filled; i++ {
		counts[rng.IntN(k)]++
	}
	sq := &Square{ODSW: odsW, Filled: filled}
	// realistic layouts carry padding shares in the middle of the square: namespace padding after a
	// blob (same namespace as the blob) and reserved padding in front of the first blob
	withPadding := rng.IntN(3) == 0
	if withPadding && counts[0] > 1 && rng.IntN(2) == 0 {
		// leading reserved padding takes the place of some shares of the first namespace run
		n := 1 + rng.IntN(counts[0]-1)
		counts[0] -= n
		sq.Present = append(sq.Present, libshare.PrimaryReservedPaddingNamespace)
		sq.Shares = append(sq.Shares, libshare.ReservedPaddingShares(n)...)
	}
	for i := 0; i < k; i++ {
		n := ns(byte(2+2*i), 0)
		sq.Present = append(sq.Present, n)
		for j := 0; j < counts[i]; j++ {
			if withPadding && j > 0 && rng.IntN(3) == 0 {
				pad, err := libshare.NamespacePaddingShare(n, libshare.ShareVersionZero)
				if err != nil {
					panic(err)
				}
				sq.Shares = append(sq.Shares, pad)
				continue
			}
			raw := make([]byte, libshare.ShareSize)
			copy(raw, n.Bytes())
			for x := libshare.NamespaceSize; x < len(raw); x++ {
				raw[x] = byte(rng.IntN(256))
			}
			sh, err := libshare.NewShare(raw)
			if err != nil {
				panic(err)
			}
			sq.Shares = append(sq.Shares, sh)
		}
	}
	sq.Shares = append(sq.Shares, libshare.TailPaddingShares(total-filled)...)
	sq.Absent = []libshare.Namespace{ns(1, 0), ns(byte(2+2*k), 9)}
	for i := 0; i+1 < k; i++ {
		sq.Absent = append(sq.Absent, ns(byte(3+2*i), 0))
	}
	sq.finish()
	return sq
}

// Empty returns the canonical empty block.
func Empty() *Square {
	sq := &Square{ODSW: 1, Shares: libshare.TailPaddingShares(1)}
	sq.Absent = []libshare.Namespace{ns(1, 0), ns(9, 9)}
	sq.finish()
	return sq
}

func (sq *Square) finish() {
	e, err := rsmt2d.ComputeExtendedDataSquare(libshare.ToBytes(sq.Shares), share.DefaultRSMT2DCodec(), wrapper.NewConstructor(uint64(sq.ODSW)))
	if err != nil {
		panic(err)
	}
	roots, err := share.NewAxisRoots(e)
	if err != nil {
		panic(err)
	}
	sq.EDS, sq.Roots = e, roots
}

// NamespaceShares returns the reference shares of a namespace in block order.
func (sq *Square) NamespaceShares(n libshare.Namespace) []libshare.Share {
	var out []libshare.Share
	for _, s := range sq.Shares[:max(sq.Filled, 0)] {
		if s.Namespace().Equals(n) {
			out = append(out, s)
		}
	}
	return out
}

func sharesEqual(a, b []libshare.Share) bool {
	if len(a) != len(b) {
		return false
	}
	for i := range a {
		if !bytes.Equal(a[i].ToBytes(), b[i].ToBytes()) {
			return false
		}
	}
	return true
}

// CheckOpts bounds the work of CheckAccessor.
type CheckOpts struct {
	Rng        *mrand.Rand
	MaxSamples int // sample coordinates checked (0 = all)
	MaxRanges  int // [from,to) ranges checked (0 = all)
	MaxAxes    int // rows and columns whose halves are read, per axis (0 = all)
	SkipReader bool
	// ErrOK accepts an error from a read path (fault-injecting configurations): errors are
	// collected in Errors instead of being reported as discrepancies. Wrong data is never accepted.
	ErrOK  bool
	Errors int
}

// CheckAccessor exercises every read path of acc and returns the
// discrepancies against the reference square (empty = all correct).
func (sq *Square) CheckAccessor(ctx context.Context, acc eds.Accessor, o *CheckOpts) []string {
	var bad []string
	fail := func(format string, a ...any) { bad = append(bad, fmt.Sprintf(format, a...)) }
	errOrFail := func(what string, err error) {
		if o.ErrOK {
			o.Errors++
			return
		}
		fail("%s: unexpected error: %v", what, err)
	}
	w := sq.ODSW
	size := 2 * w
	if n, err := acc.Size(ctx); err != nil {
		errOrFail("Size", err)
	} else if n != size {
		fail("Size=%d want %d", n, size)
	}
	if dh, err := acc.DataHash(ctx); err != nil {
		errOrFail("DataHash", err)
	} else if !bytes.Equal(dh, sq.Roots.Hash()) {
		fail("DataHash %x want %x", dh, sq.Roots.Hash())
	}
	if r, err := acc.AxisRoots(ctx); err != nil {
		errOrFail("AxisRoots", err)
	} else if !r.Equals(sq.Roots) {
		fail("AxisRoots differ from the reference roots")
	}
	// samples
	var coords []shwap.SampleCoords
	for r := 0; r < size; r++ {
		for c := 0; c < size; c++ {
			coords = append(coords, shwap.SampleCoords{Row: r, Col: c})
		}
	}
	if o.MaxSamples > 0 && len(coords) > o.MaxSamples {
		o.Rng.Shuffle(len(coords), func(i, j int) { coords[i], coords[j] = coords[j], coords[i] })
		coords = coords[:o.MaxSamples]
	}
	for _, c := range coords {
		smp, err := acc.Sample(ctx, c)
		if err != nil {
			errOrFail(fmt.Sprintf("Sample(%d,%d)", c.Row, c.Col), err)
			continue
		}
		if !bytes.Equal(smp.Share.ToBytes(), sq.EDS.GetCell(uint(c.Row), uint(c.Col))) {
			fail("Sample(%d,%d): share differs from the square's cell", c.Row, c.Col)
		}
		if err := smp.Verify(sq.Roots, c.Row, c.Col); err != nil {
			fail("Sample(%d,%d): does not verify against the roots: %v", c.Row, c.Col, err)
		}
	}
	// axis halves
	for _, ax := range []rsmt2d.Axis{rsmt2d.Row, rsmt2d.Col} {
		for i := 0; i < size; i++ {
			if o.MaxAxes > 0 && size > o.MaxAxes && o.Rng.IntN(size) >= o.MaxAxes && i != 0 && i != size-1 && i != w {
				continue // large squares: a random subset of the axes, the first, the last and the first parity one always
			}
			half, err := acc.AxisHalf(ctx, ax, i)
			if err != nil {
				errOrFail(fmt.Sprintf("AxisHalf(%v,%d)", ax, i), err)
				continue
			}
			var ref [][]byte
			if ax == rsmt2d.Row {
				ref = sq.EDS.Row(uint(i))
			} else {
				ref = sq.EDS.Col(uint(i))
			}
			if len(half.Shares) != w {
				fail("AxisHalf(%v,%d): %d shares want %d", ax, i, len(half.Shares), w)
				continue
			}
			off := 0
			if half.IsParity {
				off = w
			}
			for j, s := range half.Shares {
				if !bytes.Equal(s.ToBytes(), ref[off+j]) {
					fail("AxisHalf(%v,%d): share %d (parity=%v) differs from the square", ax, i, j, half.IsParity)
					break
				}
			}
			ext, err := half.Extended()
			if err != nil {
				fail("AxisHalf(%v,%d).Extended: %v", ax, i, err)
				continue
			}
			for j, s := range ext {
				if !bytes.Equal(s.ToBytes(), ref[j]) {
					fail("AxisHalf(%v,%d).Extended: share %d differs from the square", ax, i, j)
					break
				}
			}
		}
	}
	// namespace data, per row and for the whole block, present and absent namespaces
	all := append(append([]libshare.Namespace{}, sq.Present...), sq.Absent...)
	for _, n := range all {
		want := sq.NamespaceShares(n)
		nd, err := eds.NamespaceData(ctx, acc, n)
		if err != nil {
			errOrFail(fmt.Sprintf("NamespaceData(%x)", n.ID()[len(n.ID())-2:]), err)
		} else {
			if !sharesEqual(nd.Flatten(), want) {
				fail("NamespaceData(%x): %d shares, the block has %d (or content/order differs)", n.ID()[len(n.ID())-2:], len(nd.Flatten()), len(want))
			}
			if err := nd.Verify(sq.Roots, n); err != nil {
				fail("NamespaceData(%x): does not verify: %v", n.ID()[len(n.ID())-2:], err)
			}
		}
		rows, err := share.RowsWithNamespace(sq.Roots, n)
		if err != nil {
			fail("RowsWithNamespace: %v", err)
			continue
		}
		for _, ri := range rows {
			rnd, err := acc.RowNamespaceData(ctx, n, ri)
			if err != nil {
				errOrFail(fmt.Sprintf("RowNamespaceData(%x,row %d)", n.ID()[len(n.ID())-2:], ri), err)
				continue
			}
			var wantRow []libshare.Share
			if ri < w {
				for _, s := range sq.Shares[ri*w : (ri+1)*w] {
					if s.Namespace().Equals(n) {
						wantRow = append(wantRow, s)
					}
				}
			}
			if !sharesEqual(rnd.Shares, wantRow) {
				fail("RowNamespaceData(%x,row %d): %d shares want %d", n.ID()[len(n.ID())-2:], ri, len(rnd.Shares), len(wantRow))
			}
			if err := rnd.Verify(sq.Roots, n, ri); err != nil {
				fail("RowNamespaceData(%x,row %d): does not verify: %v", n.ID()[len(n.ID())-2:], ri, err)
			}
		}
	}
	// ranges
	type rg struct{ from, to int }
	var ranges []rg
	if o.MaxRanges > 0 && w*w > 1024 {
		// large squares: too many [from,to) pairs to list; draw them (spans of up to three rows)
		for len(ranges) < 4*o.MaxRanges {
			f := o.Rng.IntN(w * w)
			ranges = append(ranges, rg{f, min(w*w, f+1+o.Rng.IntN(3*w))})
		}
	} else {
		for f := 0; f < w*w; f++ {
			for t := f + 1; t <= w*w; t++ {
				ranges = append(ranges, rg{f, t})
			}
		}
	}
	if o.MaxRanges > 0 && len(ranges) > o.MaxRanges {
		o.Rng.Shuffle(len(ranges), func(i, j int) { ranges[i], ranges[j] = ranges[j], ranges[i] })
		ranges = ranges[:o.MaxRanges]
		sort.Slice(ranges, func(i, j int) bool { return ranges[i].from*10000+ranges[i].to < ranges[j].from*10000+ranges[j].to })
	}
	for _, r := range ranges {
		rd, err := acc.RangeNamespaceData(ctx, r.from, r.to)
		single := true
		for _, sh := range sq.Shares[r.from:r.to] {
			if !sh.Namespace().Equals(sq.Shares[r.from].Namespace()) {
				single = false
			}
		}
		if err != nil {
			if !single {
				continue // a range has to lie within one namespace; refusing others is legitimate
			}
			errOrFail(fmt.Sprintf("RangeNamespaceData(%d,%d)", r.from, r.to), err)
			continue
		}
		if !sharesEqual(rd.Flatten(), sq.Shares[r.from:r.to]) {
			fail("RangeNamespaceData(%d,%d): shares differ from the square's (got %d)", r.from, r.to, len(rd.Flatten()))
			continue
		}
		fc, err1 := shwap.SampleCoordsFrom1DIndex(r.from, w)
		tc, err2 := shwap.SampleCoordsFrom1DIndex(r.to-1, w)
		if err1 != nil || err2 != nil {
			fail("coords of range (%d,%d): %v %v", r.from, r.to, err1, err2)
			continue
		}
		if err := rd.VerifyInclusion(fc, tc, w, sq.Roots.RowRoots[fc.Row:tc.Row+1]); err != nil {
			fail("RangeNamespaceData(%d,%d): does not verify: %v", r.from, r.to, err)
		}
	}
	// full share list
	if shs, err := acc.Shares(ctx); err != nil {
		errOrFail("Shares", err)
	} else if !sharesEqual(shs, sq.Shares) {
		fail("Shares(): %d shares, differ from the square's %d", len(shs), len(sq.Shares))
	}
	// streamed ODS
	if st, ok := acc.(eds.Streamer); ok && !o.SkipReader {
		rd, err := st.Reader()
		if err != nil {
			errOrFail("Reader", err)
		} else {
			got, err := eds.ReadAccessor(ctx, rd, sq.Roots)
			if err != nil {
				errOrFail("ReadAccessor(Reader())", err)
			} else if !got.ExtendedDataSquare.Equals(sq.EDS) {
				fail("Reader(): streamed square differs from the reference")
			}
		}
	}
	// out-of-bounds arguments must be rejected, never served
	oob := func(what string, err error, empty bool) {
		if err == nil {
			fail("%s: out-of-bounds argument accepted (returned data empty=%v)", what, empty)
		}
	}
	for _, c := range []shwap.SampleCoords{{Row: -1, Col: 0}, {Row: 0, Col: -1}, {Row: size, Col: 0}, {Row: 0, Col: size}, {Row: size + 3, Col: size + 3}} {
		smp, err := acc.Sample(ctx, c)
		oob(fmt.Sprintf("Sample(%d,%d)", c.Row, c.Col), err, smp.IsEmpty())
	}
	for _, i := range []int{-1, size, size + 1} {
		_, err := acc.AxisHalf(ctx, rsmt2d.Row, i)
		oob(fmt.Sprintf("AxisHalf(row,%d)", i), err, true)
		_, err = acc.AxisHalf(ctx, rsmt2d.Col, i)
		oob(fmt.Sprintf("AxisHalf(col,%d)", i), err, true)
		if len(sq.Present) > 0 {
			_, err = acc.RowNamespaceData(ctx, sq.Present[0], i)
			oob(fmt.Sprintf("RowNamespaceData(row %d)", i), err, true)
		}
	}
	for _, r := range []rg{{0, 0}, {1, 1}, {2, 1}, {-1, 1}, {0, w*w + 1}, {w * w, w*w + 1}} {
		_, err := acc.RangeNamespaceData(ctx, r.from, r.to)
		oob(fmt.Sprintf("RangeNamespaceData(%d,%d)", r.from, r.to), err, true)
	}
	return bad
}
