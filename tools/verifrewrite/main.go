// verifrewrite mechanically rewrites one Go source file of /repo so that its
// synchronisation and file-system calls go through the simulator kit
// (package internal/verifsim, injected by overlay). Pure name substitution:
//
//	-mutex : sync.Mutex / sync.RWMutex      -> verifsim.Mutex / verifsim.RWMutex
//	-fs    : os.<Func> / os.File (listed)   -> verifsim.FS<Func> / verifsim.File
//	-sort  : for k := range <expr> {        -> for _, k := range verifsim.SortedKeys(<expr>) {
//	         (only loops whose range expression text is listed, key-only form)
//
// Exit status: 0 ok, 2 on any parse/print problem (never 1).
package main

import (
	"bytes"
	"flag"
	"fmt"
	"go/ast"
	"go/format"
	"go/parser"
	"go/printer"
	"go/token"
	"os"
	"strconv"
	"strings"
)

const simPath = "github.com/celestiaorg/celestia-node/internal/verifsim"

var fsFuncs = map[string]bool{
	"OpenFile": true, "Open": true, "Create": true, "Remove": true, "RemoveAll": true, "Link": true,
	"Symlink": true, "Stat": true, "Lstat": true, "Mkdir": true, "MkdirAll": true, "ReadFile": true,
	"WriteFile": true, "ReadDir": true, "Rename": true, "Readlink": true,
}

func die(format string, a ...any) {
	fmt.Fprintf(os.Stderr, "verifrewrite: "+format+"\n", a...)
	os.Exit(2)
}

func main() {
	in := flag.String("in", "", "input file")
	out := flag.String("out", "", "output file")
	doMutex := flag.Bool("mutex", false, "rewrite sync.Mutex/RWMutex")
	doFS := flag.Bool("fs", false, "rewrite os file functions")
	sortExprs := flag.String("sort", "", "comma separated range expressions to iterate in sorted key order")
	flag.Parse()
	if *in == "" || *out == "" {
		die("need -in and -out")
	}
	fset := token.NewFileSet()
	f, err := parser.ParseFile(fset, *in, nil, parser.ParseComments)
	if err != nil {
		die("parse %s: %v", *in, err)
	}
	// local names of the imports we care about
	local := map[string]string{} // import path -> local name
	for _, im := range f.Imports {
		p, _ := strconv.Unquote(im.Path.Value)
		name := p[strings.LastIndex(p, "/")+1:]
		if im.Name != nil {
			name = im.Name.Name
		}
		local[p] = name
	}
	syncName, osName := local["sync"], local["os"]
	changed := 0
	sorts := map[string]bool{}
	for _, e := range strings.Split(*sortExprs, ",") {
		if e = strings.TrimSpace(e); e != "" {
			sorts[e] = true
		}
	}
	exprText := func(e ast.Expr) string {
		var b bytes.Buffer
		_ = printer.Fprint(&b, fset, e)
		return b.String()
	}
	ast.Inspect(f, func(n ast.Node) bool {
		switch x := n.(type) {
		case *ast.SelectorExpr:
			id, ok := x.X.(*ast.Ident)
			if !ok || id.Obj != nil {
				return true
			}
			if *doMutex && syncName != "" && id.Name == syncName && (x.Sel.Name == "Mutex" || x.Sel.Name == "RWMutex") {
				id.Name = "verifsim"
				changed++
			}
			if *doFS && osName != "" && id.Name == osName {
				if fsFuncs[x.Sel.Name] {
					id.Name = "verifsim"
					x.Sel.Name = "FS" + x.Sel.Name
					changed++
				} else if x.Sel.Name == "File" {
					id.Name = "verifsim"
					changed++
				}
			}
		case *ast.RangeStmt:
			if len(sorts) > 0 && x.Key != nil && x.Tok == token.DEFINE && sorts[exprText(x.X)] {
				orig := x.X
				key := x.Key
				if id, ok := key.(*ast.Ident); ok && id.Name == "_" {
					return true // value-only iteration: nothing to sort by
				}
				if x.Value != nil {
					if id, ok := x.Value.(*ast.Ident); !ok || id.Name != "_" {
						// v := m[k] as first statement of the body
						as := &ast.AssignStmt{Lhs: []ast.Expr{x.Value}, Tok: token.DEFINE,
							Rhs: []ast.Expr{&ast.IndexExpr{X: orig, Index: ast.NewIdent(key.(*ast.Ident).Name)}}}
						x.Body.List = append([]ast.Stmt{as}, x.Body.List...)
					}
				}
				x.Value = key
				x.Key = ast.NewIdent("_")
				x.X = &ast.CallExpr{Fun: &ast.SelectorExpr{X: ast.NewIdent("verifsim"), Sel: ast.NewIdent("SortedKeys")}, Args: []ast.Expr{orig}}
				changed++
			}
		}
		return true
	})
	if changed > 0 {
		// which of sync / os are still referenced?
		used := map[string]bool{}
		ast.Inspect(f, func(n ast.Node) bool {
			if se, ok := n.(*ast.SelectorExpr); ok {
				if id, ok := se.X.(*ast.Ident); ok && id.Obj == nil {
					used[id.Name] = true
				}
			}
			return true
		})
		var keep []ast.Spec
		for _, d := range f.Decls {
			gd, ok := d.(*ast.GenDecl)
			if !ok || gd.Tok != token.IMPORT {
				continue
			}
			keep = keep[:0]
			for _, sp := range gd.Specs {
				is := sp.(*ast.ImportSpec)
				p, _ := strconv.Unquote(is.Path.Value)
				if (p == "sync" && !used[syncName]) || (p == "os" && !used[osName]) {
					continue
				}
				keep = append(keep, sp)
			}
			gd.Specs = append([]ast.Spec(nil), keep...)
		}
		// add the verifsim import as its own declaration right after the package clause
		imp := &ast.GenDecl{Tok: token.IMPORT, Specs: []ast.Spec{&ast.ImportSpec{
			Name: ast.NewIdent("verifsim"), Path: &ast.BasicLit{Kind: token.STRING, Value: strconv.Quote(simPath)}}}}
		f.Decls = append([]ast.Decl{imp}, f.Decls...)
		// drop now-empty import declarations
		var decls []ast.Decl
		for _, d := range f.Decls {
			if gd, ok := d.(*ast.GenDecl); ok && gd.Tok == token.IMPORT && len(gd.Specs) == 0 {
				continue
			}
			decls = append(decls, d)
		}
		f.Decls = decls
	}
	var buf bytes.Buffer
	if err := printer.Fprint(&buf, fset, f); err != nil {
		die("print: %v", err)
	}
	src, err := format.Source(buf.Bytes())
	if err != nil {
		die("format %s: %v", *in, err)
	}
	if err := os.WriteFile(*out, src, 0o644); err != nil {
		die("write: %v", err)
	}
	fmt.Printf("%s: %d substitutions\n", *in, changed)
}
