module verifrewrite

go 1.23
