// Package verifnet is an in-memory libp2p host / stream pair for the simulated
// network worlds (injected by overlay as internal/verifnet). Streams are
// reliable ordered byte pipes with bounded buffers, half-close, reset with
// error codes and read/write deadlines on the (bubble) clock; every stream has
// a counting resource scope. No real socket exists.
package verifnet

import (
	"context"
	"errors"
	"fmt"
	"io"
	"os"
	"sync"
	"time"

	"github.com/libp2p/go-libp2p/core/event"
	"github.com/libp2p/go-libp2p/core/host"
	"github.com/libp2p/go-libp2p/core/network"
	"github.com/libp2p/go-libp2p/core/peer"
	"github.com/libp2p/go-libp2p/core/protocol"
	"github.com/libp2p/go-libp2p/p2p/host/eventbus"
	ma "github.com/multiformats/go-multiaddr"
)

// Net connects simulated hosts.
type Net struct {
	mu    sync.Mutex
	hosts map[peer.ID]*Host
	// OpenHook may fail NewStream (from, to, protocol) before the handler runs.
	OpenHook func(from, to peer.ID, p protocol.ID) error
	// BufSize is the per-direction buffer of a stream in bytes.
	BufSize int
	// MemLimit is the largest ReserveMemory a stream scope grants (0 = unlimited).
	MemLimit int
	Streams  []*Stream // every server-side stream end ever opened (for conservation checks)
}

func NewNet() *Net { return &Net{hosts: map[peer.ID]*Host{}, BufSize: 64 << 10} }

// Host is a minimal host.Host.
type Host struct {
	host.Host
	id       peer.ID
	net      *Net
	addr     ma.Multiaddr
	mu       sync.Mutex
	handlers map[protocol.ID]network.StreamHandler
	bus      event.Bus
	closed   map[peer.ID]int
}

// NewHost adds a host; addr is its multiaddr as seen by remote peers
// (a loopback address is exempt from the shrex per-IP rate limiter).
func (n *Net) NewHost(id peer.ID, addr string) *Host {
	a, err := ma.NewMultiaddr(addr)
	if err != nil {
		panic(err)
	}
	h := &Host{id: id, net: n, addr: a, handlers: map[protocol.ID]network.StreamHandler{}, bus: eventbus.NewBus(), closed: map[peer.ID]int{}}
	n.mu.Lock()
	n.hosts[id] = h
	n.mu.Unlock()
	return h
}

func (h *Host) ID() peer.ID           { return h.id }
func (h *Host) EventBus() event.Bus   { return h.bus }
func (h *Host) Addrs() []ma.Multiaddr { return []ma.Multiaddr{h.addr} }
func (h *Host) Close() error          { return nil }

func (h *Host) SetStreamHandler(p protocol.ID, fn network.StreamHandler) {
	h.mu.Lock()
	h.handlers[p] = fn
	h.mu.Unlock()
}

func (h *Host) RemoveStreamHandler(p protocol.ID) {
	h.mu.Lock()
	delete(h.handlers, p)
	h.mu.Unlock()
}

type hostNetwork struct {
	network.Network
	h *Host
}

func (n hostNetwork) ClosePeer(p peer.ID) error {
	n.h.mu.Lock()
	n.h.closed[p]++
	n.h.mu.Unlock()
	return nil
}
func (n hostNetwork) LocalPeer() peer.ID                          { return n.h.id }
func (n hostNetwork) Connectedness(peer.ID) network.Connectedness { return network.Connected }

func (h *Host) Network() network.Network { return hostNetwork{h: h} }

// ErrNoHandler is returned when the remote host does not speak the protocol.
var ErrNoHandler = errors.New("verifnet: protocols not supported")

func (h *Host) NewStream(ctx context.Context, p peer.ID, pids ...protocol.ID) (network.Stream, error) {
	if err := ctx.Err(); err != nil {
		return nil, err
	}
	h.net.mu.Lock()
	remote := h.net.hosts[p]
	hook := h.net.OpenHook
	h.net.mu.Unlock()
	if remote == nil {
		return nil, fmt.Errorf("verifnet: no route to %s", p)
	}
	var pid protocol.ID
	var handler network.StreamHandler
	remote.mu.Lock()
	for _, x := range pids {
		if fn, ok := remote.handlers[x]; ok {
			pid, handler = x, fn
			break
		}
	}
	remote.mu.Unlock()
	if handler == nil {
		return nil, ErrNoHandler
	}
	if hook != nil {
		if err := hook(h.id, p, pid); err != nil {
			return nil, err
		}
	}
	local, rem := newStreamPair(h, remote, pid)
	h.net.mu.Lock()
	h.net.Streams = append(h.net.Streams, rem)
	h.net.mu.Unlock()
	go func() {
		defer func() {
			rem.mu.Lock()
			rem.handlerDone = true
			rem.mu.Unlock()
		}()
		handler(rem)
	}()
	return local, nil
}

// pipe is one direction of a stream.
type pipe struct {
	mu       sync.Mutex
	buf      []byte
	cap      int
	wclosed  bool // writer half-closed: reader sees EOF after draining
	rclosed  bool // reader closed its side: writes are discarded
	reset    bool
	resetErr error
	notify   chan struct{}
}

func newPipe(capacity int) *pipe { return &pipe{cap: capacity, notify: make(chan struct{})} }

func (p *pipe) wake() {
	close(p.notify)
	p.notify = make(chan struct{})
}

// Stream is one end of a simulated stream.
type Stream struct {
	id          string
	proto       protocol.ID
	local, rem  *Host
	in, out     *pipe
	peerEnd     *Stream
	mu          sync.Mutex
	rdl, wdl    time.Time
	scope       *Scope
	conn        *Conn
	closedAll   bool
	handlerDone bool
}

// HandlerDone reports whether the stream handler started for this (server-side) end returned.
func (s *Stream) HandlerDone() bool {
	s.mu.Lock()
	defer s.mu.Unlock()
	return s.handlerDone
}

var streamSeq int

func newStreamPair(a, b *Host, pid protocol.ID) (*Stream, *Stream) {
	ab, ba := newPipe(a.net.BufSize), newPipe(a.net.BufSize)
	a.net.mu.Lock()
	streamSeq++
	n := streamSeq
	limit := a.net.MemLimit
	a.net.mu.Unlock()
	sa := &Stream{id: fmt.Sprintf("s%d-out", n), proto: pid, local: a, rem: b, in: ba, out: ab, scope: &Scope{limit: limit}}
	sb := &Stream{id: fmt.Sprintf("s%d-in", n), proto: pid, local: b, rem: a, in: ab, out: ba, scope: &Scope{limit: limit}}
	sa.conn, sb.conn = &Conn{s: sa}, &Conn{s: sb}
	sa.peerEnd, sb.peerEnd = sb, sa
	return sa, sb
}

// ErrReset is the error of operations on a reset stream.
var ErrReset = network.ErrReset

func (s *Stream) Read(b []byte) (int, error) {
	p := s.in
	for {
		p.mu.Lock()
		if p.reset {
			err := p.resetErr
			p.mu.Unlock()
			return 0, err
		}
		if len(p.buf) > 0 {
			n := copy(b, p.buf)
			p.buf = p.buf[n:]
			p.wake()
			p.mu.Unlock()
			return n, nil
		}
		if p.wclosed {
			p.mu.Unlock()
			return 0, io.EOF
		}
		if p.rclosed {
			p.mu.Unlock()
			return 0, network.ErrReset
		}
		ch := p.notify
		p.mu.Unlock()
		s.mu.Lock()
		dl := s.rdl
		s.mu.Unlock()
		if err := waitFor(ch, dl); err != nil {
			return 0, err
		}
	}
}

func waitFor(ch chan struct{}, dl time.Time) error {
	if dl.IsZero() {
		<-ch
		return nil
	}
	d := time.Until(dl)
	if d <= 0 {
		return os.ErrDeadlineExceeded
	}
	t := time.NewTimer(d)
	defer t.Stop()
	select {
	case <-ch:
		return nil
	case <-t.C:
		return os.ErrDeadlineExceeded
	}
}

func (s *Stream) Write(b []byte) (int, error) {
	p := s.out
	written := 0
	for len(b) > 0 {
		p.mu.Lock()
		if p.reset {
			err := p.resetErr
			p.mu.Unlock()
			return written, err
		}
		if p.wclosed {
			p.mu.Unlock()
			return written, errors.New("verifnet: write on closed stream")
		}
		if p.rclosed {
			// the remote closed its read side: data is dropped, like a real transport would
			p.mu.Unlock()
			return written + len(b), nil
		}
		free := p.cap - len(p.buf)
		if free > 0 {
			n := min(free, len(b))
			p.buf = append(p.buf, b[:n]...)
			b = b[n:]
			written += n
			p.wake()
			p.mu.Unlock()
			continue
		}
		ch := p.notify
		p.mu.Unlock()
		s.mu.Lock()
		dl := s.wdl
		s.mu.Unlock()
		if err := waitFor(ch, dl); err != nil {
			return written, err
		}
	}
	return written, nil
}

func (s *Stream) CloseWrite() error {
	p := s.out
	p.mu.Lock()
	p.wclosed = true
	p.wake()
	p.mu.Unlock()
	return nil
}

func (s *Stream) CloseRead() error {
	p := s.in
	p.mu.Lock()
	p.rclosed = true
	p.buf = nil
	p.wake()
	p.mu.Unlock()
	return nil
}

func (s *Stream) Close() error {
	_ = s.CloseWrite()
	_ = s.CloseRead()
	s.mu.Lock()
	s.closedAll = true
	s.mu.Unlock()
	return nil
}

func (s *Stream) Reset() error { return s.resetWith(network.ErrReset) }

func (s *Stream) ResetWithError(code network.StreamErrorCode) error {
	return s.resetWith(&network.StreamError{ErrorCode: code, Remote: true})
}

func (s *Stream) resetWith(err error) error {
	for _, p := range []*pipe{s.in, s.out} {
		p.mu.Lock()
		if !p.reset {
			p.reset = true
			p.resetErr = err
			p.buf = nil
		}
		p.wake()
		p.mu.Unlock()
	}
	s.mu.Lock()
	s.closedAll = true
	s.mu.Unlock()
	return nil
}

// WasReset reports whether the stream was reset (by either end) and with which error.
func (s *Stream) WasReset() (bool, error) {
	s.in.mu.Lock()
	defer s.in.mu.Unlock()
	return s.in.reset, s.in.resetErr
}

func (s *Stream) SetDeadline(t time.Time) error {
	s.mu.Lock()
	s.rdl, s.wdl = t, t
	s.mu.Unlock()
	s.kick()
	return nil
}
func (s *Stream) SetReadDeadline(t time.Time) error {
	s.mu.Lock()
	s.rdl = t
	s.mu.Unlock()
	s.kick()
	return nil
}
func (s *Stream) SetWriteDeadline(t time.Time) error {
	s.mu.Lock()
	s.wdl = t
	s.mu.Unlock()
	s.kick()
	return nil
}

// kick makes blocked readers/writers re-read their deadline.
func (s *Stream) kick() {
	for _, p := range []*pipe{s.in, s.out} {
		p.mu.Lock()
		p.wake()
		p.mu.Unlock()
	}
}

func (s *Stream) ID() string                       { return s.id }
func (s *Stream) Protocol() protocol.ID            { return s.proto }
func (s *Stream) SetProtocol(id protocol.ID) error { s.proto = id; return nil }
func (s *Stream) Stat() network.Stats              { return network.Stats{} }
func (s *Stream) Conn() network.Conn               { return s.conn }
func (s *Stream) Scope() network.StreamScope       { return s.scope }
func (s *Stream) ScopeStats() *Scope               { return s.scope }
func (s *Stream) PeerEnd() *Stream                 { return s.peerEnd }

// Conn is the connection view of a stream end.
type Conn struct {
	network.Conn
	s *Stream
}

func (c *Conn) RemotePeer() peer.ID           { return c.s.rem.id }
func (c *Conn) LocalPeer() peer.ID            { return c.s.local.id }
func (c *Conn) RemoteMultiaddr() ma.Multiaddr { return c.s.rem.addr }
func (c *Conn) LocalMultiaddr() ma.Multiaddr  { return c.s.local.addr }
func (c *Conn) ID() string                    { return "conn-" + c.s.id }
func (c *Conn) Close() error                  { return nil }
func (c *Conn) IsClosed() bool                { return false }
func (c *Conn) Stat() network.ConnStats       { return network.ConnStats{} }

// Scope counts the resource-manager calls of a stream.
type Scope struct {
	network.StreamScope
	mu       sync.Mutex
	limit    int
	Service  string
	Reserved int // currently reserved bytes
	Reserves int
	Releases int
	Refused  int
	// FailService makes SetService fail (resource limit on the service scope).
	FailService bool
}

func (s *Scope) SetService(name string) error {
	s.mu.Lock()
	defer s.mu.Unlock()
	if s.FailService {
		return errors.New("verifnet: service scope limit exceeded")
	}
	s.Service = name
	return nil
}

func (s *Scope) ReserveMemory(size int, _ uint8) error {
	s.mu.Lock()
	defer s.mu.Unlock()
	if size < 0 || (s.limit > 0 && s.Reserved+size > s.limit) {
		s.Refused++
		return network.ErrResourceLimitExceeded
	}
	s.Reserved += size
	s.Reserves++
	return nil
}

func (s *Scope) ReleaseMemory(size int) {
	s.mu.Lock()
	s.Reserved -= size
	s.Releases++
	s.mu.Unlock()
}

func (s *Scope) Snapshot() (reserved, reserves, releases, refused int) {
	s.mu.Lock()
	defer s.mu.Unlock()
	return s.Reserved, s.Reserves, s.Releases, s.Refused
}
