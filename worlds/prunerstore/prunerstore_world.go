package pruner

// W-PRUNER-STORE: store-backed world for C14. Real: pruner.Service as built by
// newPrunerService, full.ShareAvailability.Prune (archival: trims the parity
// quadrant; pruned: removes the block), store.Store on a scratch directory,
// convertToPruned / detectFirstRun / ConvertFromArchivalToPruned. Stub:
// libhead.Store (verifhdr.Chain), datastore (SimDS), fx.Lifecycle (recorder).

import (
	"context"
	"errors"
	"fmt"
	mrand "math/rand/v2"
	"os"
	"testing"
	"time"

	"go.uber.org/fx"

	"github.com/celestiaorg/celestia-node/header"
	"github.com/celestiaorg/celestia-node/internal/verifhdr"
	"github.com/celestiaorg/celestia-node/internal/verifsim"
	"github.com/celestiaorg/celestia-node/internal/verifsq"
	"github.com/celestiaorg/celestia-node/nodebuilder/p2p"
	modshare "github.com/celestiaorg/celestia-node/nodebuilder/share"
	"github.com/celestiaorg/celestia-node/pruner"
	"github.com/celestiaorg/celestia-node/share"
	fullavail "github.com/celestiaorg/celestia-node/share/availability/full"
	"github.com/celestiaorg/celestia-node/share/ipld"
	"github.com/celestiaorg/celestia-node/store"
)

func TestVerifC14Store(t *testing.T) {
	verifsim.Main(t, verifsim.World{
		Prop: "C14", Name: "W-PRUNER-STORE",
		Run: func(s *verifsim.Sim) {
			dir, err := os.MkdirTemp("", "vprune-")
			if err != nil {
				panic(err)
			}
			defer os.RemoveAll(dir)
			defer verifsim.InstallFS(nil)
			defer ipld.VerifNewPool()()
			vsPrunerStore(s, dir)
			s.Finish()
		},
		Real: []string{"pruner.Service built by nodebuilder/pruner.newPrunerService", "full.ShareAvailability.Prune", "store.Store (RemoveQ4, RemoveODSQ4, PutODSQ4, read paths) on a scratch directory", "nodebuilder/pruner.convertToPruned, detectFirstRun, full.ConvertFromArchivalToPruned"},
		Stub: []string{"libhead.Store (verifhdr.Chain)", "datastore (verifsim.SimDS)", "fx.Lifecycle (records the start hook)"},
	})
}

type vsLifecycle struct{ hooks []fx.Hook }

func (l *vsLifecycle) Append(h fx.Hook) { l.hooks = append(l.hooks, h) }

type vsBlock struct {
	h       uint64
	hdr     *header.ExtendedHeader
	sq      *verifsq.Square
	trimmed bool // an archival Prune of it succeeded
	removed bool // a pruned-mode Prune of it succeeded
}

// vsObserved wraps the real pruner to judge every Prune call against the chain head.
type vsObserved struct {
	inner  pruner.Pruner
	s      *verifsim.Sim
	chain  *verifhdr.Chain
	window time.Duration
	blocks map[uint64]*vsBlock
	arch   bool
	live   *bool
	// refusing is set while a start in archival mode of a node that has pruned before is under way
	// (it ends refused); wrongMode collects the heights the archival pruner was handed meanwhile
	refusing  *bool
	wrongMode map[uint64]bool
}

func (o vsObserved) Prune(ctx context.Context, eh *header.ExtendedHeader) error {
	if *o.live || *o.refusing {
		head := o.chain.HeaderAt(o.chain.HeadHeight())
		if eh.Time().After(head.Time().Add(-o.window)) {
			o.s.Violate("c14-pruned-inside-window", "Prune", "Prune(height %d) while the head is %d: the block is only %v older than the head, the window is %v",
				eh.Height(), head.Height(), head.Time().Sub(eh.Time()), o.window)
		}
	}
	err := o.inner.Prune(ctx, eh)
	if *o.refusing {
		o.wrongMode[eh.Height()] = true
	}
	if err == nil && *o.live {
		if b := o.blocks[eh.Height()]; b != nil {
			if o.arch {
				b.trimmed = true
			} else {
				b.removed = true
			}
		}
	}
	return err
}

func vsPrunerStore(s *verifsim.Sim, dir string) {
	ctx := context.Background()
	rng := mrand.New(mrand.NewPCG(uint64(s.Choose(1<<16, "data_seed")), 71))
	window := []time.Duration{30 * time.Second, time.Minute, 2 * time.Minute}[s.Choose(3, "window")]
	cycle := []time.Duration{5 * time.Second, 30 * time.Second}[s.Choose(2, "cycle")]
	archival := s.Chance(1, 2, "start_archival")
	faulty := s.Chance(1, 3, "remove_faults")
	s.Cfg["window"], s.Cfg["cycle"], s.Cfg["start_archival"], s.Cfg["remove_faults"] = window.String(), cycle.String(), archival, faulty

	ctl := &verifsim.FSControl{}
	verifsim.InstallFS(ctl)
	failRemove, skipRemove := 0, 0
	if faulty {
		ctl.Fail = func(kind, path string) error {
			if kind == "remove" && failRemove > 0 {
				if skipRemove > 0 {
					skipRemove-- // the removal is interrupted part-way: the first file(s) do go
					return nil
				}
				failRemove--
				s.Fault("remove-eio")
				return verifsim.ErrIO
			}
			return nil
		}
	}
	st, err := store.NewStore(&store.Parameters{RecentBlocksCacheSize: s.Range(0, 4, "recent_cache")}, dir)
	if err != nil {
		panic(err)
	}
	defer func() { _ = st.Stop(ctx) }()
	sds := verifsim.NewSimDS()
	chain := verifhdr.NewChain()
	blocks := map[uint64]*vsBlock{}

	// the chain so far: irregular block times ending at the present
	n0 := s.Range(3, 40, "initial_blocks")
	gaps := make([]time.Duration, n0)
	var span time.Duration
	gap := func() time.Duration {
		switch s.ChooseW([]int{5, 2, 2, 1}, "gap") {
		case 0:
			return p2p.BlockTime
		case 1:
			return p2p.BlockTime / 3
		case 2:
			return 4 * p2p.BlockTime
		}
		return window/2 + time.Duration(rng.IntN(int(2*window/time.Second)))*time.Second // an outage
	}
	for i := range gaps {
		gaps[i] = gap()
		span += gaps[i]
	}
	t := time.Now().Add(-span)
	addBlock := func(at time.Time) *vsBlock {
		h := chain.HeadHeight() + 1
		var sq *verifsq.Square
		if rng.IntN(6) == 0 {
			sq = verifsq.Empty()
		} else {
			w := []int{1, 2, 2, 4}[rng.IntN(4)]
			sq = verifsq.Gen(rng, w, -1)
		}
		hdr := verifhdr.MakeHeader(h, at, sq.Roots)
		b := &vsBlock{h: h, hdr: hdr, sq: sq}
		blocks[h] = b
		if err := st.PutODSQ4(ctx, sq.Roots, h, sq.EDS); err != nil {
			panic(fmt.Sprintf("setup put: %v", err))
		}
		chain.Add(hdr)
		return b
	}
	for i := 0; i < n0; i++ {
		t = t.Add(gaps[i])
		addBlock(t)
	}

	live := new(bool)
	refusing := new(bool)
	wrongMode := map[uint64]bool{}
	var svc *pruner.Service
	var handle *verifsim.DSHandle
	converted := false // the node has run in pruned mode
	ended := false     // the node refused to start; nothing more to drive
	resetAt := uint64(0)
	start := func() bool {
		*live = true
		if archival && converted {
			*live, *refusing = false, true
			defer func() { *refusing = false }()
		}
		handle = sds.Handle("node")
		var opts []fullavail.Option
		if archival {
			opts = append(opts, fullavail.WithArchivalMode())
		}
		fa := fullavail.NewShareAvailability(st, nil, opts...)
		obs := vsObserved{inner: fa, s: s, chain: chain, window: window, blocks: blocks, arch: archival, live: live, refusing: refusing, wrongMode: wrongMode}
		chain.ClearOnDelete()
		var err error
		svc, err = newPrunerService(obs, modshare.Window(window), chain, nil, handle, []pruner.Option{pruner.WithPruneCycle(cycle)})
		if err != nil {
			panic(err)
		}
		lc := &vsLifecycle{}
		if err := convertToPruned(lc, &Config{EnableService: !archival}, handle, svc); err != nil {
			panic(err)
		}
		// production order of the start hooks: the service first, the conversion second
		if err := svc.Start(ctx); err != nil {
			panic(err)
		}
		if s.Chance(1, 3, "first_cycle_before_hook") {
			s.Settle() // the service's loop goroutine gets to run before the next start hook
		}
		for _, h := range lc.hooks {
			if h.OnStart == nil {
				continue
			}
			if err := h.OnStart(ctx); err != nil {
				if archival && !converted && errors.Is(err, fullavail.ErrDisallowRevertToArchival) {
					// A node without a recorded mode whose service loop pruned before the hook looked at the
					// checkpoint is taken for a formerly pruned node and refuses to start as archival. C14 says
					// nothing about that; the run ends here.
					s.Probe("archival-first-start-refused")
					sctx, cancel := context.WithTimeout(ctx, time.Minute)
					_ = svc.Stop(sctx)
					cancel()
					s.Settle()
					ended = true
					return false
				}
				if archival && converted && errors.Is(err, fullavail.ErrDisallowRevertToArchival) {
					// the node refuses to start: what was started is stopped again
					sctx, cancel := context.WithTimeout(ctx, time.Minute)
					_ = svc.Stop(sctx)
					cancel()
					s.Settle()
					return false
				}
				s.Violate("c14-start-fails", "convertToPruned", "start hook failed (archival=%v, ran pruned before=%v): %v", archival, converted, err)
				return false
			}
		}
		if archival && converted {
			s.Violate("c14-revert-to-archival-allowed", "convertToPruned", "a node that has pruned before was started in archival mode without an error")
			return false
		}
		if !archival {
			converted = true
		}
		return true
	}
	stop := func(crash bool) {
		*live = false
		if crash {
			s.Fault("crash")
			handle.Kill()
			sctx, cancel := context.WithTimeout(ctx, time.Second)
			_ = svc.Stop(sctx)
			cancel()
		} else {
			sctx, cancel := context.WithTimeout(ctx, time.Minute)
			if err := svc.Stop(sctx); err != nil {
				s.Violate("c14-stop-hangs", "Stop", "Stop failed: %v", err)
			}
			cancel()
		}
		s.Settle()
	}
	_ = resetAt
	if !start() {
		return
	}
	_ = ended

	// judge: what must hold for the store at any quiescent moment
	judge := func(where string, all bool) {
		if s.Violated() {
			return
		}
		head := chain.HeaderAt(chain.HeadHeight())
		cutoff := head.Time().Add(-window)
		// between steps a sample of heights is read back (biased to the window edge), at the end all
		edge := uint64(1)
		for edge < chain.HeadHeight() && !blocks[edge].hdr.Time().After(cutoff) {
			edge++
		}
		for h := uint64(1); h <= chain.HeadHeight(); h++ {
			b := blocks[h]
			if !all && !(h+3 >= edge && h <= edge+2) && rng.IntN(8) != 0 {
				continue
			}
			inside := b.hdr.Time().After(cutoff)
			has, err := st.HasByHeight(ctx, h)
			if err != nil {
				s.Violate("c14-store-error", where, "HasByHeight(%d): %v", h, err)
				return
			}
			mustServe := inside || (!converted)
			if !has {
				if mustServe {
					s.Violate("c14-servable-block-removed", where, "height %d (inside window=%v, node never ran pruned=%v) is no longer in the store", h, inside, !converted)
					return
				}
				continue
			}
			acc, err := st.GetByHeight(ctx, h)
			if err != nil {
				if mustServe {
					s.Violate("c14-servable-block-removed", where, "height %d (inside window=%v) cannot be opened: %v", h, inside, err)
					return
				}
				continue
			}
			bad := b.sq.CheckAccessor(ctx, acc, &verifsq.CheckOpts{Rng: rng, MaxSamples: 6, MaxRanges: 2, SkipReader: true, ErrOK: !mustServe})
			_ = acc.Close()
			if len(bad) > 0 {
				s.Violate("c14-block-not-fully-servable", where, "height %d (inside window=%v, archival trimmed=%v): %v", h, inside, b.trimmed, bad[0])
				return
			}
			if inside && !vsEmpty(b) {
				if q4, _ := st.HasQ4ByHash(ctx, b.sq.Roots.Hash()); !q4 && !vsSharedHash(blocks, b, cutoff) {
					s.Violate("c14-parity-removed-inside-window", where, "height %d lies inside the window but its parity quadrant file is gone", h)
					return
				}
			}
		}
	}

	nsteps := s.Range(3, 30, "nsteps")
	for step := 0; step < nsteps && !s.Violated(); step++ {
		s.Settle()
		switch s.ChooseW([]int{6, 6, 2, 2, 1, 1, 2}, "op") {
		case 0: // new heads arrive
			for i, n := 0, 1+s.Choose(4, "new_blocks"); i < n; i++ {
				g := gap()
				s.Stall(g)
				addBlock(time.Now())
			}
		case 1: // time passes over prune cycles
			s.Stall(cycle*time.Duration(1+s.Choose(3, "cycles")) + time.Second)
		case 2: // header store tail moves up to the window edge
			head := chain.HeaderAt(chain.HeadHeight())
			nt := chain.TailHeight()
			for nt+1 < chain.HeadHeight() && chain.HeaderAt(nt) != nil && chain.HeaderAt(nt).Time().Before(head.Time().Add(-window-p2p.BlockTime)) {
				nt++
			}
			if nt > chain.TailHeight() {
				s.Fault("tail-advance")
				nt = chain.TailHeight() + 1 + uint64(s.Choose(int(nt-chain.TailHeight()), "tail_by"))
				_ = chain.AdvanceTail(ctx, nt)
			}
		case 3:
			if faulty {
				failRemove = 1 + s.Choose(4, "failing_removes")
				skipRemove = s.Choose(3, "removes_before_the_failure")
			}
		case 4: // graceful restart in the same mode
			stop(false)
			if s.Violated() || !start() {
				return
			}
		case 5: // crash + restart
			stop(true)
			if !start() {
				return
			}
		case 6: // mode change at restart
			stop(false)
			if s.Violated() {
				return
			}
			if archival {
				s.Fault("convert-to-pruned")
				archival = false
				if !start() {
					return
				}
			} else {
				s.Fault("revert-to-archival-attempt")
				archival = true
				if start() {
					return // violation recorded
				}
				if s.Violated() {
					return
				}
				archival = false
				if !start() {
					return
				}
			}
		}
		s.Settle()
		judge(fmt.Sprintf("step %d", step), false)
	}
	if s.Violated() {
		return
	}
	// fault-free continuation: enough cycles for everything old to go
	failRemove, skipRemove = 0, 0
	ctl.Fail = nil
	for i := 0; i < 10; i++ {
		s.Stall(cycle + time.Second)
	}
	judge("continuation", true)
	if s.Violated() {
		return
	}
	head := chain.HeaderAt(chain.HeadHeight())
	limit := head.Time().Add(-window - p2p.BlockTime)
	for h := max(uint64(2), chain.TailHeight()+1); h <= chain.HeadHeight(); h++ {
		b := blocks[h]
		if !b.hdr.Time().Before(limit) {
			continue
		}
		has, _ := st.HasByHeight(ctx, h)
		q4, _ := st.HasQ4ByHash(ctx, b.sq.Roots.Hash())
		shared := vsSharedHashAny(blocks, b)
		byHash, _ := st.HasByHash(ctx, b.sq.Roots.Hash())
		if !archival && !has && byHash && !shared && !vsEmpty(b) {
			sig := "files-left-behind"
			if wrongMode[h] {
				// the height was handed to the archival pruner during a refused start in archival mode
				sig = "handed to the archival pruner during a refused archival start"
			}
			s.Violate("c14-old-blocks-never-pruned", sig, "pruned node: height %d is older than window %v + block time behind head %d; its height link is gone but the block's files are still in the store after the fault-free continuation (removal recorded=%v)", h, window, head.Height(), b.removed)
			return
		}
		switch {
		case archival && q4 && !vsEmpty(b) && !shared:
			s.Violate("c14-old-blocks-never-pruned", "continuation", "archival node: height %d is older than window %v + block time behind head %d but still has its parity quadrant after the fault-free continuation (trim recorded=%v)", h, window, head.Height(), b.trimmed)
			return
		case !archival && has:
			sig := "continuation"
			if wrongMode[h] {
				// the height was handed to the archival pruner during a refused start in archival mode
				sig = "handed to the archival pruner during a refused archival start"
			}
			s.Violate("c14-old-blocks-never-pruned", sig, "pruned node: height %d is older than window %v + block time behind head %d but is still in the store after the fault-free continuation (removal recorded=%v, trimmed while archival=%v); tail %d; datastore %v", h, window, head.Height(), b.removed, b.trimmed, chain.TailHeight(), sds.Snapshot())
			return
		}
	}
	stop(false)
}

// vsSharedHash: another block inside the window has the same square (its files are shared by hash).
func vsSharedHash(blocks map[uint64]*vsBlock, b *vsBlock, cutoff time.Time) bool {
	for _, o := range blocks {
		if o != b && string(o.sq.Roots.Hash()) == string(b.sq.Roots.Hash()) {
			return true
		}
	}
	return false
}

func vsSharedHashAny(blocks map[uint64]*vsBlock, b *vsBlock) bool {
	return vsSharedHash(blocks, b, time.Time{})
}

func vsEmpty(b *vsBlock) bool { return share.DataHash(b.sq.Roots.Hash()).IsEmptyEDS() }
