package header

// W-BLOBSUB: deterministic simulation world for C20 (blob subscriptions deliver
// every block once, in order, with the right blobs). Real: blob.Service
// (Start, Stop, Subscribe, getAll, getBlobs, retrieve, share parser, blob
// construction and commitments) and this package's Service.Subscribe adapter.
// Stub: header subscription (verifhdr.Chain), shwap.Getter.GetNamespaceData
// (seam answering from the reference square through the real
// eds.NamespaceData), header getter by height.

import (
	"bytes"
	"context"
	"errors"
	"fmt"
	mrand "math/rand/v2"
	"sort"
	"sync"
	"testing"
	"time"

	libhead "github.com/celestiaorg/go-header"
	libshare "github.com/celestiaorg/go-square/v4/share"
	"github.com/celestiaorg/rsmt2d"

	"github.com/celestiaorg/celestia-app/v9/pkg/wrapper"

	"github.com/celestiaorg/celestia-node/blob"
	hdr "github.com/celestiaorg/celestia-node/header"
	"github.com/celestiaorg/celestia-node/internal/verifhdr"
	"github.com/celestiaorg/celestia-node/internal/verifsim"
	"github.com/celestiaorg/celestia-node/share"
	"github.com/celestiaorg/celestia-node/share/eds"
	"github.com/celestiaorg/celestia-node/share/shwap"
)

func TestVerifC20(t *testing.T) {
	verifsim.Main(t, verifsim.World{
		Prop: "C20", Name: "W-BLOBSUB",
		Run:  func(s *verifsim.Sim) { vsBlobSubWorld(s); s.Finish() },
		Real: []string{"blob.Service (Start, Stop, Subscribe, getAll, getBlobs, retrieve, parser, blob construction, commitments)", "nodebuilder/header.Service.Subscribe adapter", "eds.NamespaceData over rsmt2d"},
		Stub: []string{"header subscription (verifhdr.Chain)", "shwap.Getter.GetNamespaceData seam", "header getter by height"},
	})
}

type vsBlock struct {
	h      *hdr.ExtendedHeader
	square *rsmt2d.ExtendedDataSquare
	blobs  map[string][]*blob.Blob // namespace -> reference blobs in block order
	index  map[string][]int        // namespace -> expected first-share index in the EDS
}

type vsNDCall struct {
	id     int
	height uint64
	ns     libshare.Namespace
	resp   chan error // nil = serve from the reference square
}

type vsBlobWorld struct {
	s       *verifsim.Sim
	mu      sync.Mutex
	blocks  map[uint64]*vsBlock
	pending []*vsNDCall
	nextID  int
	auto    int // 0 = manual, 1 = always serve, 2 = always fail
}

func (w *vsBlobWorld) GetNamespaceData(ctx context.Context, h *hdr.ExtendedHeader, ns libshare.Namespace) (shwap.NamespaceData, error) {
	w.mu.Lock()
	blk := w.blocks[h.Height()]
	auto := w.auto
	w.nextID++
	c := &vsNDCall{id: w.nextID, height: h.Height(), ns: ns, resp: make(chan error, 1)}
	if auto == 0 {
		w.pending = append(w.pending, c)
	}
	w.mu.Unlock()
	var err error
	switch auto {
	case 1:
	case 2:
		// keep failing, but let simulated time pass so that a retry loop cannot spin at one instant
		select {
		case <-time.After(100 * time.Millisecond):
		case <-ctx.Done():
			return nil, ctx.Err()
		}
		err = errors.New("verif: retrieval keeps failing")
	default:
		select {
		case err = <-c.resp:
		case <-ctx.Done():
			w.mu.Lock()
			for i, p := range w.pending {
				if p == c {
					w.pending = append(w.pending[:i], w.pending[i+1:]...)
					break
				}
			}
			w.mu.Unlock()
			return nil, ctx.Err()
		}
	}
	if err != nil {
		return nil, err
	}
	return eds.NamespaceData(ctx, &eds.Rsmt2D{ExtendedDataSquare: blk.square}, ns)
}

func (w *vsBlobWorld) GetSamples(context.Context, *hdr.ExtendedHeader, []shwap.SampleCoords) ([]shwap.Sample, error) {
	return nil, shwap.ErrOperationNotSupported
}
func (w *vsBlobWorld) GetEDS(context.Context, *hdr.ExtendedHeader) (*rsmt2d.ExtendedDataSquare, error) {
	return nil, shwap.ErrOperationNotSupported
}
func (w *vsBlobWorld) GetRow(context.Context, *hdr.ExtendedHeader, int) (shwap.Row, error) {
	return shwap.Row{}, shwap.ErrOperationNotSupported
}
func (w *vsBlobWorld) GetRangeNamespaceData(context.Context, *hdr.ExtendedHeader, int, int) (shwap.RangeNamespaceData, error) {
	return shwap.RangeNamespaceData{}, shwap.ErrOperationNotSupported
}

func (w *vsBlobWorld) livePending() []*vsNDCall {
	w.mu.Lock()
	defer w.mu.Unlock()
	out := append([]*vsNDCall(nil), w.pending...)
	sort.Slice(out, func(i, j int) bool {
		if out[i].height != out[j].height {
			return out[i].height < out[j].height
		}
		if c := bytes.Compare(out[i].ns.Bytes(), out[j].ns.Bytes()); c != 0 {
			return c < 0
		}
		return out[i].id < out[j].id
	})
	return out
}

func (w *vsBlobWorld) release(c *vsNDCall, err error) {
	w.mu.Lock()
	for i, p := range w.pending {
		if p == c {
			w.pending = append(w.pending[:i], w.pending[i+1:]...)
			break
		}
	}
	w.mu.Unlock()
	c.resp <- err
}

// vsBuildBlock lays out a random blob multiset as a valid square.
func vsBuildBlock(height uint64, rng *mrand.Rand, nss []libshare.Namespace, t0 time.Time) *vsBlock {
	type nb struct {
		ns libshare.Namespace
		b  *blob.Blob
	}
	var all []nb
	for _, ns := range nss {
		n := []int{0, 0, 1, 1, 2, 3}[rng.IntN(6)]
		for i := 0; i < n; i++ {
			size := []int{1, 17, 400, 478, 479, 1200, 3000}[rng.IntN(7)]
			data := make([]byte, size)
			for k := range data {
				data[k] = byte(rng.IntN(256))
			}
			var b *blob.Blob
			var err error
			if rng.IntN(4) == 0 {
				signer := make([]byte, libshare.SignerSize)
				signer[0] = byte(rng.IntN(256))
				b, err = blob.NewBlobV1(ns, data, signer)
			} else {
				b, err = blob.NewBlobV0(ns, data)
			}
			if err != nil {
				panic(err)
			}
			all = append(all, nb{ns, b})
		}
	}
	sort.SliceStable(all, func(i, j int) bool { return all[i].ns.IsLessThan(all[j].ns) })
	blk := &vsBlock{blobs: map[string][]*blob.Blob{}, index: map[string][]int{}}
	var shares []libshare.Share
	starts := make([]int, len(all))
	for i, x := range all {
		sh, err := x.b.ToShares()
		if err != nil {
			panic(err)
		}
		starts[i] = len(shares)
		shares = append(shares, sh...)
	}
	odsW := 1
	for odsW*odsW < len(shares) || odsW*odsW < 1 {
		odsW *= 2
	}
	if len(shares) == 0 {
		odsW = 1
	}
	shares = append(shares, libshare.TailPaddingShares(odsW*odsW-len(shares))...)
	sq, err := rsmt2d.ComputeExtendedDataSquare(libshare.ToBytes(shares), share.DefaultRSMT2DCodec(), wrapper.NewConstructor(uint64(odsW)))
	if err != nil {
		panic(err)
	}
	for i, x := range all {
		k := string(x.ns.Bytes())
		blk.blobs[k] = append(blk.blobs[k], x.b)
		blk.index[k] = append(blk.index[k], (starts[i]/odsW)*(2*odsW)+starts[i]%odsW)
	}
	roots, err := share.NewAxisRoots(sq)
	if err != nil {
		panic(err)
	}
	blk.square = sq
	blk.h = verifhdr.MakeHeader(height, t0, roots)
	return blk
}

type vsSub struct {
	ns       libshare.Namespace
	ch       <-chan *blob.SubscriptionResponse
	cancel   context.CancelFunc
	from     uint64 // first height announced after the subscription started
	got      []uint64
	closed   bool
	cause    string // why the stream may end ("" = no cause yet)
	sawFull  bool
	overflow bool // buffer was full while a further header had been fed
}

func vsBlobSubWorld(s *verifsim.Sim) {
	w := &vsBlobWorld{s: s, blocks: map[uint64]*vsBlock{}}
	seed := uint64(s.Choose(1<<16, "data_seed"))
	rng := mrand.New(mrand.NewPCG(seed, 77))
	nsub := s.Range(1, 3, "nsubs")
	faultFree := s.Chance(1, 8, "fault_free")
	s.Cfg["nsubs"], s.Cfg["fault_free"] = nsub, faultFree
	var nss []libshare.Namespace
	for i := 0; i < 4; i++ {
		ns, err := libshare.NewV0Namespace(bytes.Repeat([]byte{byte(0x10 + i)}, libshare.NamespaceVersionZeroIDSize))
		if err != nil {
			panic(err)
		}
		nss = append(nss, ns)
	}
	t0 := time.Now()
	chain := verifhdr.NewChain()
	chain.Add(verifhdr.MakeHeader(1, t0, nil))
	hsvc := &Service{sub: chain}
	hdrMiss := 0 // header look-ups that still answer "not found" (the store lags behind the subscription)
	getByHeight := func(_ context.Context, height uint64) (*hdr.ExtendedHeader, error) {
		w.mu.Lock()
		defer w.mu.Unlock()
		if hdrMiss > 0 {
			hdrMiss--
			s.Fault("header-lookup-lags")
			// each failing look-up takes a little simulated time, so that a retry loop cannot spin at one instant
			w.mu.Unlock()
			time.Sleep(50 * time.Millisecond)
			w.mu.Lock()
			return nil, fmt.Errorf("verif: header %d: %w", height, libhead.ErrNotFound)
		}
		if b := w.blocks[height]; b != nil {
			return b.h, nil
		}
		return nil, fmt.Errorf("verif: unknown height %d", height)
	}
	svc := blob.NewService(nil, w, getByHeight, hsvc.Subscribe)
	if err := svc.Start(context.Background()); err != nil {
		panic(err)
	}
	stopped, feedClosed, restarted := false, false, false
	height := uint64(1)
	var subs []*vsSub
	for i := 0; i < nsub; i++ {
		ctx, cancel := context.WithCancel(context.Background())
		ch, err := svc.Subscribe(ctx, nss[i])
		if err != nil {
			panic(err)
		}
		subs = append(subs, &vsSub{ns: nss[i], ch: ch, cancel: cancel, from: 2})
	}
	var announced []uint64

	check := func(sb *vsSub, r *blob.SubscriptionResponse) {
		want := sb.from + uint64(len(sb.got))
		hgt := r.Header.Height
		if uint64(hgt) != want || r.Height != want {
			s.Violate("c20-out-of-sequence", "response", "subscription %x: response #%d is for height %d (Height field %d), expected %d; received so far %v", sb.ns.ID()[len(sb.ns.ID())-1:], len(sb.got), hgt, r.Height, want, sb.got)
		}
		sb.got = append(sb.got, uint64(hgt))
		blk := w.blocks[uint64(hgt)]
		if blk == nil {
			s.Violate("c20-unknown-height", "response", "response for height %d which was never fed", hgt)
			return
		}
		ref := blk.blobs[string(sb.ns.Bytes())]
		idx := blk.index[string(sb.ns.Bytes())]
		if len(r.Blobs) != len(ref) {
			s.Violate("c20-wrong-blobs", "count", "height %d namespace %x: %d blobs delivered, the block holds %d", hgt, sb.ns.ID(), len(r.Blobs), len(ref))
			return
		}
		for i, b := range r.Blobs {
			rb := ref[i]
			switch {
			case !b.Namespace().Equals(sb.ns):
				s.Violate("c20-wrong-blobs", "namespace", "height %d: blob %d has namespace %x, subscribed %x", hgt, i, b.Namespace().ID(), sb.ns.ID())
			case !bytes.Equal(b.Data(), rb.Data()):
				s.Violate("c20-wrong-blobs", "data", "height %d: blob %d data differs from the block's (len %d vs %d)", hgt, i, len(b.Data()), len(rb.Data()))
			case b.ShareVersion() != rb.ShareVersion() || !bytes.Equal(b.Signer(), rb.Signer()):
				s.Violate("c20-wrong-blobs", "version-or-signer", "height %d: blob %d share version/signer differ", hgt, i)
			case !bytes.Equal(b.Commitment, rb.Commitment):
				s.Violate("c20-wrong-blobs", "commitment", "height %d: blob %d commitment differs", hgt, i)
			case b.Index() != idx[i]:
				s.Violate("c20-wrong-blobs", "index", "height %d: blob %d index %d, expected %d", hgt, i, b.Index(), idx[i])
			}
		}
	}
	// read takes one buffered response of a subscription, if any
	read := func(sb *vsSub) bool {
		select {
		case r, ok := <-sb.ch:
			if !ok {
				if !sb.closed {
					sb.closed = true
					if sb.cause == "" && !sb.sawFull {
						s.Violate("c20-closed-without-cause", "close", "subscription %x closed although it was not cancelled, the service runs, the feed is open and the buffer never held 16 unread responses; received %v of announced %v", sb.ns.ID()[len(sb.ns.ID())-1:], sb.got, announced)
					}
				}
				return false
			}
			check(sb, r)
			return true
		default:
			return false
		}
	}

	nsteps := s.Range(5, 90, "nsteps")
	for step := 0; step < nsteps && !s.Violated(); step++ {
		s.Settle()
		for _, sb := range subs {
			if len(sb.ch) == cap(sb.ch) {
				sb.sawFull = true
				if sb.from+uint64(len(sb.got))+uint64(len(sb.ch)) <= height && len(announced) > 0 {
					sb.overflow = true
				}
			}
		}
		var alts []verifsim.Alt
		if !feedClosed && height < 45 {
			alts = append(alts, verifsim.Alt{Label: "announce", Weight: 10, Do: func() {
				height++
				blk := vsBuildBlock(height, rng, nss, t0)
				w.mu.Lock()
				w.blocks[height] = blk
				w.mu.Unlock()
				chain.Add(blk.h)
				announced = append(announced, height)
				chain.Announce(blk.h)
			}})
		}
		for _, c := range w.livePending() {
			c := c
			alts = append(alts, verifsim.Alt{Label: fmt.Sprintf("serve h%d ns%x", c.height, c.ns.ID()[len(c.ns.ID())-1:]), Weight: 10, Do: func() { w.release(c, nil) }})
			if !faultFree {
				for k, e := range []error{errors.New("verif: transient retrieval failure"),
					fmt.Errorf("verif: peer request timed out: %w", context.DeadlineExceeded),
					fmt.Errorf("verif: peer stream reset: %w", context.Canceled)} {
					e := e
					kind := []string{"fail", "fail-deadline-like", "fail-cancel-like"}[k]
					alts = append(alts, verifsim.Alt{Label: fmt.Sprintf("%s h%d ns%x", kind, c.height, c.ns.ID()[len(c.ns.ID())-1:]), Weight: []int{3, 1, 1}[k], Do: func() {
						s.Fault("retrieval-" + kind)
						w.release(c, e)
					}})
				}
			}
		}
		for i, sb := range subs {
			sb := sb
			if len(sb.ch) > 0 {
				alts = append(alts, verifsim.Alt{Label: fmt.Sprintf("consumer%d reads", i), Weight: 6, Do: func() { read(sb) }})
			}
			if !faultFree && sb.cause == "" {
				alts = append(alts, verifsim.Alt{Label: fmt.Sprintf("cancel sub%d", i), Weight: 1, Do: func() {
					s.Fault("user-cancel")
					sb.cause = "cancelled"
					sb.cancel()
				}})
			}
		}
		if !faultFree && !stopped {
			if !faultFree && hdrMiss == 0 {
				alts = append(alts, verifsim.Alt{Label: "header look-ups lag", Weight: 1, Do: func() {
					w.mu.Lock()
					hdrMiss = 1 + s.Choose(3, "lagging_lookups")
					w.mu.Unlock()
				}})
			}
			alts = append(alts, verifsim.Alt{Label: "service stop", Weight: 1, Do: func() {
				s.Fault("service-stop")
				stopped = true
				for _, sb := range subs {
					if sb.cause == "" {
						sb.cause = "service stopped"
					}
				}
				_ = svc.Stop(context.Background())
			}})
		}
		if stopped && !restarted && !feedClosed {
			// the node starts the same service object again: subscriptions made from now on must work
			alts = append(alts, verifsim.Alt{Label: "service starts again", Weight: 3, Do: func() {
				s.Fault("service-restart")
				restarted = true
				if err := svc.Start(context.Background()); err != nil {
					s.Violate("c20-service-restart-fails", "Start", "Start of a stopped blob service fails: %v", err)
					return
				}
				ctx, cancel := context.WithCancel(context.Background())
				ch, err := svc.Subscribe(ctx, nss[3])
				if err != nil {
					cancel()
					s.Violate("c20-service-restart-fails", "Subscribe", "Subscribe after a restart of the blob service fails: %v", err)
					return
				}
				subs = append(subs, &vsSub{ns: nss[3], ch: ch, cancel: cancel, from: height + 1})
				stopped = false
			}})
		}
		if !faultFree && !feedClosed {
			alts = append(alts, verifsim.Alt{Label: "feed closes", Weight: 1, Do: func() {
				s.Fault("feed-close")
				feedClosed = true
				for _, sb := range subs {
					if sb.cause == "" {
						sb.cause = "feed closed"
					}
				}
				chain.CloseSubs()
			}})
		}
		alts = append(alts, s.StallAlt([]time.Duration{time.Millisecond, time.Second, time.Minute}[s.Choose(3, "stall_len")], 1))
		s.Pick("step", alts)
	}
	if s.Violated() {
		return
	}

	// ---- end phase
	s.Settle()
	for _, sb := range subs {
		if len(sb.ch) == cap(sb.ch) {
			sb.sawFull = true
		}
	}
	// 1. streams that have a reason to end must end promptly even while retrievals keep failing
	w.mu.Lock()
	w.auto = 2
	w.mu.Unlock()
	for _, c := range w.livePending() {
		w.release(c, errors.New("verif: retrieval keeps failing"))
	}
	ended := func(sb *vsSub) bool {
		for read(sb) {
		}
		return sb.closed
	}
	for _, sb := range subs {
		if sb.cause == "" {
			continue
		}
		// "promptly": within 20 retrieval attempts (each failing attempt takes 100 simulated ms here)
		ok := false
		for i := 0; i < 20 && !ok; i++ {
			s.Stall(100 * time.Millisecond)
			ok = ended(sb)
			if s.Violated() {
				return
			}
		}
		if !ok {
			// does it at least end once the retrieval in flight succeeds?
			w.mu.Lock()
			w.auto = 1
			w.mu.Unlock()
			for i := 0; i < 20 && !ok; i++ {
				s.Stall(time.Second)
				ok = ended(sb)
			}
			if ok {
				s.Violate("c20-stream-does-not-end", sb.cause+" while a retrieval keeps failing", "subscription %x: %s, but its channel stayed open for 2 simulated seconds (20 failing retrieval attempts) while the retrieval in flight kept failing (it ended only after that retrieval succeeded); received %v", sb.ns.ID()[len(sb.ns.ID())-1:], sb.cause, sb.got)
			} else {
				s.Violate("c20-stream-does-not-end", sb.cause, "subscription %x: %s, but its channel is still open 22 simulated seconds later, also after retrievals succeed again; received %v", sb.ns.ID()[len(sb.ns.ID())-1:], sb.cause, sb.got)
			}
			return
		}
	}
	// 1b. promptness probe on live streams: let the retrieval in flight fail for a while, then
	// cancel the subscriber or stop the service; the stream must end within 20 attempt durations
	var liveNow []*vsSub
	for _, sb := range subs {
		if sb.cause == "" && !sb.closed {
			liveNow = append(liveNow, sb)
		}
	}
	if len(liveNow) > 0 && !faultFree && s.Chance(1, 2, "promptness_probe") {
		w.mu.Lock()
		w.auto = 2
		w.mu.Unlock()
		for _, c := range w.livePending() {
			w.release(c, errors.New("verif: retrieval keeps failing"))
		}
		// give the stream something to retrieve if it is idle
		if !feedClosed && s.Chance(1, 2, "probe_announce") {
			height++
			blk := vsBuildBlock(height, rng, nss, t0)
			w.mu.Lock()
			w.blocks[height] = blk
			w.mu.Unlock()
			chain.Add(blk.h)
			announced = append(announced, height)
			chain.Announce(blk.h)
		}
		failFor := []time.Duration{300 * time.Millisecond, 3 * time.Second, 20 * time.Second, 45 * time.Second}[s.Choose(4, "fail_for")]
		for el := time.Duration(0); el < failFor; el += 100 * time.Millisecond {
			s.Stall(100 * time.Millisecond)
		}
		var probed []*vsSub
		if s.Choose(2, "probe_cause") == 0 {
			sb := liveNow[s.Choose(len(liveNow), "probe_sub")]
			s.Fault("user-cancel")
			sb.cause = "cancelled"
			sb.cancel()
			probed = []*vsSub{sb}
		} else {
			s.Fault("service-stop")
			stopped = true
			_ = svc.Stop(context.Background())
			for _, sb := range liveNow {
				sb.cause = "service stopped"
			}
			probed = liveNow
		}
		for _, sb := range probed {
			ok := false
			for i := 0; i < 20 && !ok; i++ {
				s.Stall(100 * time.Millisecond)
				ok = ended(sb)
				if s.Violated() {
					return
				}
			}
			if !ok {
				s.Violate("c20-stream-does-not-end", sb.cause+" while a retrieval keeps failing", "subscription %x: %s after the retrieval in flight had been failing for %v, but its channel is still open 2 simulated seconds (20 failing attempts) later; received %v", sb.ns.ID()[len(sb.ns.ID())-1:], sb.cause, failFor, sb.got)
				return
			}
		}
	}
	// 2. live streams: retrievals succeed from now on (served one at a time, the consumer reads
	// after each, so it never falls behind); every fed header must arrive
	w.mu.Lock()
	w.auto = 0
	w.mu.Unlock()
	live := func() (out []*vsSub) {
		for _, sb := range subs {
			if sb.cause == "" && !sb.closed {
				out = append(out, sb)
			}
		}
		return
	}
	for i := 0; i < 2000 && len(live()) > 0; i++ {
		s.Settle()
		for _, sb := range live() {
			if len(sb.ch) == cap(sb.ch) {
				sb.sawFull = true
			}
			for read(sb) {
			}
		}
		if s.Violated() {
			return
		}
		p := w.livePending()
		if len(p) == 0 {
			done := true
			for _, sb := range live() {
				if sb.from+uint64(len(sb.got)) <= height {
					done = false
				}
			}
			if done {
				break
			}
			// nothing in flight: a retry may be waiting for a back-off; give it two simulated minutes
			quiet := true
			for k := 0; k < 120 && quiet; k++ {
				s.Stall(time.Second)
				quiet = len(w.livePending()) == 0
				for _, sb := range live() {
					if len(sb.ch) > 0 {
						quiet = false
					}
				}
			}
			if quiet {
				break // nothing in flight and nothing arrives any more
			}
			continue
		}
		w.release(p[0], nil)
	}
	for _, sb := range live() {
		if sb.overflow {
			s.Violate("c20-overflow-not-closed", "overflow", "subscription %x had 16 unread responses when a further header arrived, yet the stream went on; received %v", sb.ns.ID()[len(sb.ns.ID())-1:], sb.got)
			return
		}
		if want := int(height) - int(sb.from) + 1; len(sb.got) != want {
			s.Violate("c20-heights-missing", "live", "subscription %x is live but delivered %d responses %v for %d fed headers %v (a failed retrieval must be retried, not skipped)", sb.ns.ID()[len(sb.ns.ID())-1:], len(sb.got), sb.got, want, announced)
			return
		}
	}
	for _, sb := range subs {
		sb.cancel()
	}
	_ = svc.Stop(context.Background())
	chain.CloseSubs()
}
