package store

// W-STORE-SEQ: deterministic simulation world for C05 (every read path of a
// stored block returns the stored block, in every representation) and C07 (a
// crash during put or remove never leaves a readable-but-wrong block).
// Real: store.Store, CachedStore, store.Getter, store/file, store/cache,
// share/eds wrappers, share/ipld proof walking, on a real scratch directory.
// The os calls of store and store/file go through the verifsim FS shims.

import (
	"context"
	"errors"
	"fmt"
	mrand "math/rand/v2"
	"os"
	"path/filepath"
	"sort"
	"strings"
	"testing"
	"time"

	libshare "github.com/celestiaorg/go-square/v4/share"

	"github.com/celestiaorg/celestia-node/internal/verifhdr"
	"github.com/celestiaorg/celestia-node/internal/verifsim"
	"github.com/celestiaorg/celestia-node/internal/verifsq"
	"github.com/celestiaorg/celestia-node/share"
	"github.com/celestiaorg/celestia-node/share/eds"
	"github.com/celestiaorg/celestia-node/share/ipld"
	"github.com/celestiaorg/celestia-node/share/shwap"
)

func TestVerifStoreSeq(t *testing.T) {
	prop := os.Getenv("VERIF_PROP")
	if prop == "" {
		prop = "C05"
	}
	verifsim.Main(t, verifsim.World{
		Prop: prop, Name: "W-STORE-SEQ",
		Run: func(s *verifsim.Sim) {
			dir, err := os.MkdirTemp("", "vstore-")
			if err != nil {
				panic(err)
			}
			defer os.RemoveAll(dir)
			defer verifsim.InstallFS(nil)
			defer ipld.VerifNewPool()()
			if prop == "C07" {
				vsCrashWorld(s, dir)
			} else {
				vsReadWorld(s, dir)
			}
			s.Finish()
		},
		Real: []string{"store.Store (put/get/has/remove, recovery of existing files)", "store.CachedStore", "store.Getter", "store/file (ODS, Q4, ODSQ4, header, codec, square)", "store/cache", "share/eds wrappers (proofs cache, close-once, validation, NamespaceData, ReadAccessor)", "share/ipld proof walking", "real file system of a scratch directory"},
		Stub: []string{"none (os calls of store and store/file pass through verifsim FS shims: effect points, crash images, injected errors)"},
	})
}

// vsWide is one square of the largest ODS width a file-backed row read has to cope with (128: the
// extended width 256 is where 16-bit size arithmetic overflows); built once per process.
var vsWide *verifsq.Square

func vsGenSquare(s *verifsim.Sim, rng *mrand.Rand, allowBig, allowWide bool) *verifsq.Square {
	if allowWide && s.Chance(1, 120, "wide_square") {
		if vsWide == nil {
			vsWide = verifsq.Gen(rng, 128, -1)
		}
		return vsWide
	}
	ws := []int{1, 2, 2, 4, 4, 8}
	if allowBig {
		ws = append(ws, 16)
	}
	w := ws[s.Choose(len(ws), "ods_width")]
	switch s.ChooseW([]int{6, 2, 2, 1}, "fill") {
	case 1:
		return verifsq.Gen(rng, w, w*w) // no padding
	case 2:
		return verifsq.Gen(rng, w, 1) // all but one share is padding
	case 3:
		return verifsq.Empty()
	}
	return verifsq.Gen(rng, w, -1)
}

func vsCheckOpts(rng *mrand.Rand, w int) *verifsq.CheckOpts {
	o := &verifsq.CheckOpts{Rng: rng}
	if w > 2 {
		o.MaxSamples, o.MaxRanges = 24, 10
	}
	if w > 8 {
		o.MaxSamples, o.MaxRanges = 12, 5
	}
	if w > 16 {
		o.MaxSamples, o.MaxRanges, o.MaxAxes = 10, 4, 6
	}
	return o
}

// ------------------------------------------------------------------ C05

func vsReadWorld(s *verifsim.Sim, dir string) {
	ctx := context.Background()
	rng := mrand.New(mrand.NewPCG(uint64(s.Choose(1<<16, "data_seed")), 5))
	recent := s.Range(0, 3, "recent_cache")
	serving := s.Range(1, 2, "serving_cache")
	faulty := s.Chance(1, 6, "read_faults")
	s.Cfg["recent_cache"], s.Cfg["serving_cache"], s.Cfg["read_faults"] = recent, serving, faulty
	nblocks := s.Range(1, 3, "nblocks")
	type blk struct {
		h      uint64
		sq     *verifsq.Square
		stored bool
		q4     bool
	}
	var blocks []*blk
	var widths []int
	for i := 0; i < nblocks; i++ {
		b := &blk{h: uint64(100 + i*256), sq: vsGenSquare(s, rng, true, true)} // heights collide on cache slots
		blocks = append(blocks, b)
		widths = append(widths, b.sq.ODSW)
	}
	s.Cfg["widths"] = widths
	ctl := &verifsim.FSControl{}
	verifsim.InstallFS(ctl)
	open := func() (*Store, *CachedStore) {
		st, err := NewStore(&Parameters{RecentBlocksCacheSize: recent}, dir)
		if err != nil {
			panic(err)
		}
		cs, err := st.WithCache("serving", serving)
		if err != nil {
			panic(err)
		}
		return st, cs
	}
	st, cs := open()
	var hist []string
	nops := s.Range(1, 8, "nops")
	for i := 0; i < nops && !s.Violated(); i++ {
		b := blocks[s.Choose(len(blocks), "block")]
		switch s.ChooseW([]int{5, 5, 2, 2, 3}, "op") {
		case 0:
			if err := st.PutODSQ4(ctx, b.sq.Roots, b.h, b.sq.EDS); err != nil {
				s.Violate("c05-put-failed", "PutODSQ4", "PutODSQ4(h=%d w=%d): %v", b.h, b.sq.ODSW, err)
			}
			if !b.stored {
				b.q4 = true
			}
			b.stored = true
			hist = append(hist, fmt.Sprintf("PutODSQ4(%d)", b.h))
		case 1:
			if err := st.PutODS(ctx, b.sq.Roots, b.h, b.sq.EDS); err != nil {
				s.Violate("c05-put-failed", "PutODS", "PutODS(h=%d w=%d): %v", b.h, b.sq.ODSW, err)
			}
			b.stored = true
			hist = append(hist, fmt.Sprintf("PutODS(%d)", b.h))
		case 2:
			st, cs = open()
			hist = append(hist, "reopen")
		case 3:
			if b.stored {
				if err := st.RemoveQ4(ctx, b.h, b.sq.Roots.Hash()); err != nil {
					s.Violate("c05-removeq4-failed", "RemoveQ4", "RemoveQ4(h=%d): %v", b.h, err)
				}
				b.q4 = false
				hist = append(hist, fmt.Sprintf("RemoveQ4(%d)", b.h))
			}
		case 4:
			// touch through one of the two entry points so that the caches hold it
			if b.stored {
				var acc eds.AccessorStreamer
				var err error
				if s.Choose(2, "via") == 0 {
					acc, err = st.GetByHeight(ctx, b.h)
				} else {
					acc, err = cs.GetByHeight(ctx, b.h)
				}
				if err == nil {
					_, _ = acc.Sample(ctx, shwap.SampleCoords{Row: 2*b.sq.ODSW - 1, Col: 2*b.sq.ODSW - 1})
					_ = acc.Close()
				}
				hist = append(hist, fmt.Sprintf("touch(%d)", b.h))
			}
		}
	}
	s.Cfg["history"] = strings.Join(hist, " ")
	if s.Violated() {
		return
	}
	if faulty {
		n := 0
		every := s.Range(3, 17, "eio_every")
		ctl.Fail = func(kind, path string) error {
			if kind != "read" {
				return nil
			}
			n++
			if n%every == 0 {
				s.Fault("read-eio")
				return verifsim.ErrIO
			}
			return nil
		}
	}
	for _, b := range blocks {
		if !b.stored {
			if ok, _ := st.HasByHeight(ctx, b.h); ok {
				s.Violate("c05-phantom-block", "HasByHeight", "height %d was never put but HasByHeight says true; history: %s", b.h, hist)
			}
			continue
		}
		for vi, via := range []string{"Store.GetByHeight", "CachedStore.GetByHeight", "Store.GetByHeight#2"} {
			var acc eds.AccessorStreamer
			var err error
			if vi == 1 {
				acc, err = cs.GetByHeight(ctx, b.h)
			} else {
				acc, err = st.GetByHeight(ctx, b.h)
			}
			if err != nil {
				if faulty {
					continue
				}
				s.Violate("c05-stored-block-unreadable", via, "%s(%d) failed: %v; history: %s", via, b.h, err, hist)
				return
			}
			o := vsCheckOpts(rng, b.sq.ODSW)
			o.ErrOK = faulty
			var bad []string
			func() {
				defer acc.Close() // also when the code under test panics: a leaked accessor's finalizer would fire outside the bubble
				bad = b.sq.CheckAccessor(ctx, acc, o)
			}()
			if len(bad) > 0 {
				s.Violate("c05-read-path-differs", vsFirstWord(bad[0]), "height %d (ODS width %d, %d of %d shares filled, q4 on disk=%v) via %s: %d discrepancies, first: %s; history: %s",
					b.h, b.sq.ODSW, b.sq.Filled, b.sq.ODSW*b.sq.ODSW, b.q4, via, len(bad), bad[0], hist)
				return
			}
		}
		if !faulty {
			vsCheckGetter(s, ctx, NewGetter(st), b.h, b.sq, rng, hist)
		}
	}
}

func vsFirstWord(x string) string {
	if i := strings.IndexAny(x, "(: "); i > 0 {
		return x[:i]
	}
	return x
}

// vsCheckGetter runs the read paths of store.Getter.
func vsCheckGetter(s *verifsim.Sim, ctx context.Context, g *Getter, h uint64, sq *verifsq.Square, rng *mrand.Rand, hist []string) {
	hd := verifhdr.MakeHeader(h, time.Now(), sq.Roots)
	size := 2 * sq.ODSW
	var coords []shwap.SampleCoords
	for i := 0; i < 4; i++ {
		coords = append(coords, shwap.SampleCoords{Row: rng.IntN(size), Col: rng.IntN(size)})
	}
	smps, err := g.GetSamples(ctx, hd, coords)
	if err != nil || len(smps) != len(coords) {
		s.Violate("c05-getter-differs", "GetSamples", "Getter.GetSamples(h=%d): err=%v n=%d; history: %s", h, err, len(smps), hist)
		return
	}
	for i, c := range coords {
		if err := smps[i].Verify(sq.Roots, c.Row, c.Col); err != nil || string(smps[i].Share.ToBytes()) != string(sq.EDS.GetCell(uint(c.Row), uint(c.Col))) {
			s.Violate("c05-getter-differs", "GetSamples", "Getter.GetSamples(h=%d)[%d,%d] wrong share or proof (%v); history: %s", h, c.Row, c.Col, err, hist)
			return
		}
	}
	e, err := g.GetEDS(ctx, hd)
	if err != nil || !e.Equals(sq.EDS) {
		s.Violate("c05-getter-differs", "GetEDS", "Getter.GetEDS(h=%d): err=%v or square differs; history: %s", h, err, hist)
		return
	}
	ri := rng.IntN(size)
	row, err := g.GetRow(ctx, hd, ri)
	if err != nil {
		s.Violate("c05-getter-differs", "GetRow", "Getter.GetRow(h=%d,%d): %v; history: %s", h, ri, err, hist)
		return
	}
	if err := row.Verify(sq.Roots, ri); err != nil {
		s.Violate("c05-getter-differs", "GetRow", "Getter.GetRow(h=%d,%d) does not verify: %v; history: %s", h, ri, err, hist)
		return
	}
	for _, n := range append(append([]libshare.Namespace{}, sq.Present...), sq.Absent...) {
		nd, err := g.GetNamespaceData(ctx, hd, n)
		if err != nil {
			s.Violate("c05-getter-differs", "GetNamespaceData", "Getter.GetNamespaceData(h=%d): %v; history: %s", h, err, hist)
			return
		}
		if err := nd.Verify(sq.Roots, n); err != nil || len(nd.Flatten()) != len(sq.NamespaceShares(n)) {
			s.Violate("c05-getter-differs", "GetNamespaceData", "Getter.GetNamespaceData(h=%d): verify=%v, %d shares want %d; history: %s", h, err, len(nd.Flatten()), len(sq.NamespaceShares(n)), hist)
			return
		}
	}
}

// ------------------------------------------------------------------ C07

type vsTarget struct {
	kind string // "PutODS", "PutODSQ4", "RemoveODSQ4", "RemoveQ4"
	h    uint64
	sq   *verifsq.Square
}

func (t vsTarget) run(ctx context.Context, st *Store) error {
	switch t.kind {
	case "PutODS":
		return st.PutODS(ctx, t.sq.Roots, t.h, t.sq.EDS)
	case "PutODSQ4":
		return st.PutODSQ4(ctx, t.sq.Roots, t.h, t.sq.EDS)
	case "RemoveODSQ4":
		return st.RemoveODSQ4(ctx, t.h, t.sq.Roots.Hash())
	case "RemoveQ4":
		return st.RemoveQ4(ctx, t.h, t.sq.Roots.Hash())
	}
	return errors.New("unknown target")
}

// vsCrashAtOpen crashes the very first opening of a store directory (which writes the file every empty
// block is linked to) at a tape-chosen file-system effect, reopens, and requires empty blocks to work.
func vsCrashAtOpen(s *verifsim.Sim, dir string) {
	ctx := context.Background()
	params := &Parameters{RecentBlocksCacheSize: s.Range(0, 2, "recent_cache")}
	live := filepath.Join(dir, "live")
	_ = os.Mkdir(live, 0o755)
	ctl := &verifsim.FSControl{YieldEffects: true}
	verifsim.InstallFS(ctl)
	at := s.Range(0, 14, "open_crash_at")
	s.Cfg["history"] = fmt.Sprintf("first NewStore crashed before effect #%d", at+1)
	img := ""
	task := s.Go("first-open", func() { _, _ = NewStore(params, live) })
	for step := 0; step < 200; step++ {
		ps := s.Settle()
		if task.Done() {
			break
		}
		if step == at {
			resume := ctl.Pause()
			img = filepath.Join(dir, "img-open")
			if err := verifsim.CopyTree(live, img); err != nil {
				panic(err)
			}
			resume()
			s.Fault("crash-during-first-open")
			s.Probe("crash-image")
		}
		alts := s.TaskAlts(ps, 1)
		if len(alts) == 0 {
			break
		}
		s.Pick("effect", alts)
	}
	ctl.YieldEffects = false
	if img == "" {
		img = live // the open completed before the chosen point: judge the completed state
	}
	resume := ctl.Pause()
	defer resume()
	st, err := NewStore(params, img)
	if err != nil {
		s.Violate("c07-reopen-failed", "NewStore", "NewStore on the image of a crashed first open failed: %v", err)
		return
	}
	empty := verifsq.Empty()
	const h = 11
	if err := st.PutODSQ4(ctx, empty.Roots, h, empty.EDS); err != nil {
		s.Violate("c07-reput-fails", "PutODSQ4(empty)", "storing an empty block after a crashed first open fails: %v", err)
		return
	}
	acc, err := st.GetByHeight(ctx, h)
	if err != nil {
		s.Violate("c07-listed-but-unreadable", "empty block after a crashed first open", "the empty block of height %d is listed but cannot be opened: %v (first open crashed before effect #%d)", h, err, at+1)
		return
	}
	defer acc.Close()
	if bad := empty.CheckAccessor(ctx, acc, &verifsq.CheckOpts{Rng: mrand.New(mrand.NewPCG(1, 2)), SkipReader: false}); len(bad) > 0 {
		s.Violate("c07-readable-but-wrong", "empty block after a crashed first open", "the empty block of height %d reads wrongly after a crashed first open (before effect #%d): %s", h, at+1, bad[0])
	}
}

func vsCrashWorld(s *verifsim.Sim, dir string) {
	if s.Chance(1, 8, "crash_at_first_open") {
		vsCrashAtOpen(s, dir)
		return
	}
	ctx := context.Background()
	rng := mrand.New(mrand.NewPCG(uint64(s.Choose(1<<16, "data_seed")), 9))
	recent := s.Range(0, 2, "recent_cache")
	params := &Parameters{RecentBlocksCacheSize: recent}
	live := filepath.Join(dir, "live")
	_ = os.Mkdir(live, 0o755)
	ctl := &verifsim.FSControl{}
	verifsim.InstallFS(ctl)
	resume := ctl.Pause()
	st, err := NewStore(params, live)
	if err != nil {
		panic(err)
	}
	sq := vsGenSquare(s, rng, true, false)
	h := uint64(7)
	s.Cfg["ods_width"], s.Cfg["filled"], s.Cfg["recent_cache"] = sq.ODSW, sq.Filled, recent
	var hist []string
	imgNo := 0
	newImage := func() string {
		imgNo++
		p := filepath.Join(dir, fmt.Sprintf("img%d", imgNo))
		if err := verifsim.CopyTree(live, p); err != nil {
			panic(err)
		}
		return p
	}
	// stepped runs op with every FS effect as a scheduler step; after each step fn is called with
	// the number of effects done so far (FS control paused inside fn). It returns the op's error.
	stepped := func(name string, op func() error, atBoundary func(step int) bool) (error, bool) {
		var opErr error
		ctl.YieldEffects = true
		resume()
		task := s.Go(name, func() { opErr = op() })
		completed := true
		for step := 0; step < 400; step++ {
			ps := s.Settle()
			if task.Done() {
				break
			}
			resume = ctl.Pause()
			stop := atBoundary(step)
			resume()
			if stop || s.Violated() {
				completed = false
				break
			}
			alts := s.TaskAlts(ps, 1)
			if len(alts) == 0 {
				break
			}
			s.Pick("effect", alts)
		}
		resume = ctl.Pause()
		ctl.YieldEffects = false
		return opErr, completed && task.Done()
	}

	// ---- prefix
	prefix := s.ChooseW([]int{3, 3, 3, 2}, "prefix") // 0 none, 1 stored with Q4, 2 stored ODS only, 3 orphaned by an earlier crash
	switch prefix {
	case 1:
		if err := st.PutODSQ4(ctx, sq.Roots, h, sq.EDS); err != nil {
			panic(err)
		}
		hist = append(hist, "PutODSQ4")
	case 2:
		if err := st.PutODS(ctx, sq.Roots, h, sq.EDS); err != nil {
			panic(err)
		}
		hist = append(hist, "PutODS")
	case 3:
		// crash an earlier put at a tape-chosen effect and continue on that image
		kind := []string{"PutODSQ4", "PutODS"}[s.Choose(2, "orphan_put")]
		at := s.Range(1, 12, "orphan_crash_at")
		var img string
		_, _ = stepped("orphan-"+kind, func() error { return vsTarget{kind, h, sq}.run(ctx, st) }, func(step int) bool {
			if step == at {
				img = newImage()
				return true
			}
			return false
		})
		if img != "" {
			s.Fault("crash-in-prefix")
			live = img
			st, err = NewStore(params, live)
			if err != nil {
				s.Violate("c07-reopen-failed", "NewStore", "NewStore on the crash image of the prefix failed: %v", err)
				return
			}
			hist = append(hist, fmt.Sprintf("%s crashed at effect %d + reopen", kind, at))
		} else {
			hist = append(hist, kind)
		}
	}
	// ---- target
	kinds := []string{"PutODSQ4", "PutODS", "RemoveODSQ4", "RemoveQ4"}
	tk := kinds[s.ChooseW([]int{5, 4, 3, 2}, "target")]
	target := vsTarget{tk, h, sq}
	hist = append(hist, "TARGET "+tk)
	s.Cfg["history"] = strings.Join(hist, "; ")
	points := 0
	terr, done := stepped("target-"+tk, func() error { return target.run(ctx, st) }, func(step int) bool {
		img := newImage()
		points++
		s.Probe("crash-image")
		s.Fault("crash")
		vsCheckImage(s, ctx, params, img, target, rng, fmt.Sprintf("crash before effect #%d of %s (effects so far: %v); history: %s", step+1, tk, vsTail(ctl.Log, 8), hist), step)
		_ = os.RemoveAll(img)
		return false
	})
	s.Cfg["crash_points"] = points
	if s.Violated() {
		return
	}
	if !done {
		s.Violate("c07-target-never-returns", tk, "%s did not return; history: %s", tk, hist)
		return
	}
	if terr != nil {
		s.Violate("c07-target-failed", tk, "%s failed without any injected fault: %v; history: %s", tk, terr, hist)
		return
	}
	// the completed state is a crash point too
	img := newImage()
	s.Probe("crash-image")
	vsCheckImage(s, ctx, params, img, target, rng, fmt.Sprintf("crash right after %s returned; history: %s", tk, hist), -1)
}

func vsTail(x []string, n int) []string {
	if len(x) > n {
		return x[len(x)-n:]
	}
	return x
}

// vsCheckImage restarts on a crash image and evaluates C07's clauses.
func vsCheckImage(s *verifsim.Sim, ctx context.Context, params *Parameters, img string, t vsTarget, rng *mrand.Rand, where string, step int) {
	if s.Violated() {
		return
	}
	st, err := NewStore(params, img)
	if err != nil {
		s.Violate("c07-reopen-failed", "NewStore", "NewStore on the crash image failed: %v; %s", err, where)
		return
	}
	readable := func(st *Store, what string) bool {
		acc, err := st.GetByHeight(ctx, t.h)
		if err != nil {
			s.Violate("c07-listed-but-unreadable", what, "%s: HasByHeight(%d) is true but GetByHeight fails: %v; %s", what, t.h, err, where)
			return false
		}
		defer acc.Close()
		bad := t.sq.CheckAccessor(ctx, acc, vsCheckOpts(rng, t.sq.ODSW))
		if len(bad) > 0 {
			s.Violate("c07-readable-but-wrong", what+"/"+vsFirstWord(bad[0]), "%s: height %d (ODS width %d, %d shares filled) is served but %d read paths are wrong, first: %s; files: %v; %s",
				what, t.h, t.sq.ODSW, t.sq.Filled, len(bad), bad[0], vsListFiles(img), where)
			return false
		}
		return true
	}
	has, err := st.HasByHeight(ctx, t.h)
	if err != nil {
		s.Violate("c07-lookup-failed", "HasByHeight", "HasByHeight after restart: %v; %s", err, where)
		return
	}
	if has {
		if !readable(st, "after restart") {
			return
		}
		s.Probe("image-block-present")
	} else {
		if _, err := st.GetByHeight(ctx, t.h); !errors.Is(err, ErrNotFound) {
			s.Violate("c07-absent-but-served", "GetByHeight", "HasByHeight(%d) is false but GetByHeight returns err=%v; %s", t.h, err, where)
			return
		}
		s.Probe("image-block-absent")
	}
	// storing the same block again always succeeds and leaves it fully readable
	flavour := []string{"PutODSQ4", "PutODS"}[rng.IntN(2)]
	if err := (vsTarget{flavour, t.h, t.sq}).run(ctx, st); err != nil {
		s.Violate("c07-reput-fails", flavour, "re-%s of the same block after the crash fails: %v; files before: %v; %s", flavour, err, vsListFiles(img), where)
		return
	}
	if ok, err := st.HasByHeight(ctx, t.h); err != nil || !ok {
		s.Violate("c07-reput-not-stored", flavour, "after re-%s HasByHeight=%v err=%v; %s", flavour, ok, err, where)
		return
	}
	if !readable(st, "after re-"+flavour) {
		return
	}
	// ... also for a fresh process
	st2, err := NewStore(params, img)
	if err != nil {
		s.Violate("c07-reopen-failed", "NewStore", "second NewStore failed: %v; %s", err, where)
		return
	}
	if !readable(st2, "after re-"+flavour+" and reopen") {
		return
	}
	// removing again succeeds and leaves nothing
	if err := st2.RemoveODSQ4(ctx, t.h, t.sq.Roots.Hash()); err != nil {
		s.Violate("c07-reremove-fails", "RemoveODSQ4", "RemoveODSQ4 after recovery fails: %v; %s", err, where)
		return
	}
	if ok, _ := st2.HasByHeight(ctx, t.h); ok {
		s.Violate("c07-remove-leaves-block", "RemoveODSQ4", "block still listed after RemoveODSQ4; %s", where)
		return
	}
	if !share.DataHash(t.sq.Roots.Hash()).IsEmptyEDS() {
		for _, f := range vsListFiles(img) {
			if strings.Contains(f, share.DataHash(t.sq.Roots.Hash()).String()) || strings.HasSuffix(f, fmt.Sprintf("heights/%d.ods", t.h)) {
				s.Violate("c07-remove-leaves-files", "RemoveODSQ4", "file %s is left behind after RemoveODSQ4; %s", f, where)
				return
			}
		}
	}
}

func vsListFiles(root string) []string {
	var out []string
	_ = filepath.Walk(root, func(p string, info os.FileInfo, err error) error {
		if err == nil && !info.IsDir() {
			rel, _ := filepath.Rel(root, p)
			out = append(out, fmt.Sprintf("%s(%d)", rel, info.Size()))
		}
		return nil
	})
	sort.Strings(out)
	return out
}
