package das

// W-DAS: deterministic simulation world for C04 (no height is ever lost,
// including across restarts) and C13 (progress, bounds, done flag, retries,
// statistics). Injected by overlay as an in-package test file; only the public
// API of the DASer is driven (NewDASer/Start/Stop/SamplingStats/WaitCatchUp);
// the one in-package access is DASer.cancel, used to abandon a crashed instance.

import (
	"context"
	"errors"
	"fmt"
	"os"
	"sort"
	"strings"
	"sync"
	"testing"
	"time"

	libhead "github.com/celestiaorg/go-header"

	"github.com/celestiaorg/celestia-node/header"
	"github.com/celestiaorg/celestia-node/internal/verifhdr"
	"github.com/celestiaorg/celestia-node/internal/verifsim"
	"github.com/celestiaorg/celestia-node/share/availability"
)

func TestVerifDAS(t *testing.T) {
	prop := os.Getenv("VERIF_PROP")
	if prop == "" {
		prop = "C04"
	}
	verifsim.Main(t, verifsim.World{
		Prop: prop, Name: "W-DAS",
		Run:  func(s *verifsim.Sim) { vsDASWorld(s); s.Finish() },
		Real: []string{"das.DASer (NewDASer, Start, Stop, SamplingStats, WaitCatchUp)", "das.samplingCoordinator", "das.coordinatorState", "das.worker", "das.checkpoint + checkpointStore incl. background store ticker", "das.subscriber", "das retry back-off"},
		Stub: []string{"share.Availability (sampler seam with per-call outcomes)", "libhead.Store / Subscriber (verifhdr.Chain)", "datastore (verifsim.SimDS)"},
	})
}

type vsOutcome int

const (
	vsOK vsOutcome = iota
	vsFail
	vsOutside
	vsCancelLike
	nOutcomes
)

var vsOutcomeNames = []string{"ok", "fail", "outside-window", "cancel-like"}

type vsCall struct {
	id     int
	height uint64
	gen    int
	resp   chan error
}

// vsSampler is the share.Availability seam: every call blocks until the
// driver releases it with an outcome or its context ends.
type vsSampler struct {
	mu      sync.Mutex
	pending []*vsCall
	nextID  int
	gen     int // generation of the instance whose calls count
	sampled map[uint64]bool
	// calls records (height, simulated time) of every call start, per generation
	lastFail map[uint64]int64
	callLog  []string
	s        *verifsim.Sim
	maxConc  int
	onCall   func(c *vsCall)
	// auto makes every call succeed at once (the fault-free continuation)
	auto bool
	// alone[x] is true when the call whose failure is recorded in lastFail[x] was the only
	// live call for x at that moment
	alone map[uint64]bool
	// fails counts the failed sampling attempts per height made by the live instance
	fails map[uint64]int
}

type vsSamplerFor struct {
	a   *vsSampler
	gen int
}

func (f vsSamplerFor) SharesAvailable(ctx context.Context, h *header.ExtendedHeader) error {
	a := f.a
	a.mu.Lock()
	a.nextID++
	c := &vsCall{id: a.nextID, height: h.Height(), gen: f.gen, resp: make(chan error, 1)}
	a.pending = append(a.pending, c)
	live := 0
	for _, p := range a.pending {
		if p.gen == a.gen {
			live++
		}
	}
	if f.gen == a.gen && live > a.maxConc {
		a.maxConc = live
	}
	if a.onCall != nil {
		a.onCall(c)
	}
	if a.auto && f.gen == a.gen {
		a.remove(c)
		a.sampled[c.height] = true
		a.mu.Unlock()
		return nil
	}
	a.mu.Unlock()
	select {
	case err := <-c.resp:
		return err
	case <-ctx.Done():
		a.mu.Lock()
		a.remove(c)
		if errors.Is(ctx.Err(), context.DeadlineExceeded) && f.gen == a.gen {
			a.fails[c.height]++
			a.lastFail[c.height] = a.s.Now()
			a.alone[c.height] = false // not judged for retry timing
		}
		a.mu.Unlock()
		return ctx.Err()
	}
}

func (a *vsSampler) remove(c *vsCall) {
	for i, p := range a.pending {
		if p == c {
			a.pending = append(a.pending[:i], a.pending[i+1:]...)
			return
		}
	}
}

func (a *vsSampler) livePending() []*vsCall {
	a.mu.Lock()
	defer a.mu.Unlock()
	var out []*vsCall
	for _, p := range a.pending {
		if p.gen == a.gen {
			out = append(out, p)
		}
	}
	sort.Slice(out, func(i, j int) bool {
		if out[i].height != out[j].height {
			return out[i].height < out[j].height
		}
		return out[i].id < out[j].id
	})
	return out
}

func (a *vsSampler) release(c *vsCall, o vsOutcome) {
	a.mu.Lock()
	a.remove(c)
	others := false
	for _, p := range a.pending {
		if p.gen == c.gen && p.height == c.height {
			others = true
		}
	}
	a.alone[c.height] = !others
	var err error
	switch o {
	case vsOK:
		a.sampled[c.height] = true
	case vsOutside:
		a.sampled[c.height] = true
		err = availability.ErrOutsideSamplingWindow
	case vsFail:
		err = errors.New("verif: sampling failed")
		a.lastFail[c.height] = a.s.Now()
	case vsCancelLike:
		err = fmt.Errorf("verif: peer stream closed: %w", context.Canceled)
		a.lastFail[c.height] = a.s.Now()
	}
	if err != nil && o != vsOutside && c.gen == a.gen {
		a.fails[c.height]++
	}
	a.mu.Unlock()
	c.resp <- err
}

type vsDAS struct {
	s       *verifsim.Sim
	chain   *verifhdr.Chain
	ds      *verifsim.SimDS
	sampler *vsSampler
	opts    []Option
	limit   int
	// maxLimit is the largest limit any instance of this run was configured with: workers resumed from
	// a checkpoint written under a larger limit legitimately exceed a smaller one
	maxLimit int
	hdrMiss  int
	rng      uint64

	d        *DASer
	handle   *verifsim.DSHandle
	state    string // "running", "stopping", "down"
	stopTask *verifsim.Task
	start    uint64 // first starting point (tail at the first start)
	lifeNo   int
	graceful bool // the last shutdown was a completed graceful stop

	prevFailed map[uint64]int
	newCalls   []*vsCall
	// restored holds the heights the current instance restored as failed from its checkpoint
	// (they may be tracked twice: as failed and inside a resumed job); nil until first observed
	restored map[uint64]bool
	// multi marks heights that more than one job has been sampling in this lifetime (a recent job
	// for a far-ahead head plus the catch-up job that reaches it later, or a restored failed height
	// inside a resumed job): their attempt bookkeeping is a sum over sources and not judged.
	multi  map[uint64]bool
	nCalls map[uint64]int // sampler calls per height in this lifetime
	nRetry map[uint64]int // of those, calls seen to belong to a retry job
}

// vsHdrGetter is the header getter handed to the DASer: the chain, except that the next hdrMiss
// look-ups by height answer "not found" (the header store lags or hiccups; the header exists).
type vsHdrGetter struct {
	*verifhdr.Chain
	w *vsDAS
}

func (g vsHdrGetter) GetByHeight(ctx context.Context, h uint64) (*header.ExtendedHeader, error) {
	g.w.sampler.mu.Lock()
	miss := g.w.hdrMiss > 0
	if miss {
		g.w.hdrMiss--
	}
	g.w.sampler.mu.Unlock()
	if miss {
		// the attempt never reaches the sampler seam, so the seam's per-height failure count does not see
		// it: the height's attempt bookkeeping is not judged in this lifetime (same as multiply tracked ones)
		g.w.sampler.mu.Lock()
		g.w.multi[h] = true
		g.w.sampler.mu.Unlock()
		g.w.s.Fault("header-lookup-not-found")
		return nil, fmt.Errorf("verif: header %d: %w", h, libhead.ErrNotFound)
	}
	return g.Chain.GetByHeight(ctx, h)
}

func (w *vsDAS) startInstance() {
	w.sampler.mu.Lock()
	w.sampler.gen++
	gen := w.sampler.gen
	w.sampler.fails = map[uint64]int{}
	w.sampler.mu.Unlock()
	w.handle = w.ds.Handle(fmt.Sprintf("das%d", gen))
	w.handle.YieldOps = true
	if w.lifeNo > 0 && w.s.Chance(1, 6, "limit_changes_at_restart") {
		// the operator restarts the node with another concurrency limit
		w.s.Fault("concurrency-limit-changed")
		w.limit = w.s.Range(1, 4, "new_concurrency_limit")
		w.maxLimit = max(w.maxLimit, w.limit)
		w.opts = append(append([]Option{}, w.opts...), WithConcurrencyLimit(w.limit))
	}
	d, err := NewDASer(vsSamplerFor{w.sampler, gen}, w.chain, vsHdrGetter{w.chain, w}, w.handle, w.opts...)
	if err != nil {
		panic(err)
	}
	w.d = d
	w.lifeNo++
	w.prevFailed = nil
	w.restored = nil
	w.multi = map[uint64]bool{}
	w.nCalls = map[uint64]int{}
	w.nRetry = map[uint64]int{}
	ok := w.s.Do("start", func() {
		if err := d.Start(context.Background()); err != nil {
			panic(err)
		}
	})
	if !ok {
		panic("DASer.Start did not return")
	}
	w.state = "running"
}

func (w *vsDAS) crash() {
	w.handle.Kill()
	if w.d.cancel != nil {
		w.d.cancel()
	}
	w.sampler.mu.Lock()
	w.sampler.gen++ // calls of the dead instance no longer count
	w.sampler.mu.Unlock()
	w.state = "down"
	w.graceful = false
	w.stopTask = nil
}

func vsDASWorld(s *verifsim.Sim) {
	w := &vsDAS{s: s, chain: verifhdr.NewChain(), ds: verifsim.NewSimDS()}
	w.sampler = &vsSampler{sampled: map[uint64]bool{}, lastFail: map[uint64]int64{}, alone: map[uint64]bool{}, fails: map[uint64]int{}, s: s}
	w.rng = uint64(s.Range(1, 5, "sampling_range"))
	w.limit = s.Range(1, 4, "concurrency_limit")
	w.maxLimit = w.limit
	bg := []time.Duration{0, 30 * time.Second, 10 * time.Minute}[s.Choose(3, "bg_store")]
	sampleTimeout := []time.Duration{10 * time.Second, 60 * time.Second}[s.Choose(2, "sample_timeout")]
	w.opts = []Option{WithSamplingRange(w.rng), WithConcurrencyLimit(w.limit), WithBackgroundStoreInterval(bg), WithSampleTimeout(sampleTimeout)}
	tail := uint64(s.Range(1, 3, "tail"))
	head := tail + uint64(s.Range(0, 9, "initial_chain"))
	faultFree := s.Chance(1, 8, "fault_free")
	s.Cfg["sampling_range"], s.Cfg["limit"], s.Cfg["bg_store"], s.Cfg["sample_timeout"] = w.rng, w.limit, bg.String(), sampleTimeout.String()
	s.Cfg["tail"], s.Cfg["head"], s.Cfg["fault_free"] = tail, head, faultFree
	t0 := time.Now()
	for h := tail; h <= head; h++ {
		w.chain.Add(verifhdr.MakeHeader(h, t0, nil))
	}
	w.start = tail
	w.sampler.onCall = func(c *vsCall) { w.newCalls = append(w.newCalls, c) }
	w.startInstance()

	maxHeight := tail + 60
	addHeaders := func(to uint64) {
		for h := w.chain.HeadHeight() + 1; h <= to; h++ {
			w.chain.Add(verifhdr.MakeHeader(h, t0, nil))
		}
	}
	stalls := []time.Duration{time.Millisecond, sampleTimeout + time.Second, 61 * time.Second, 5 * time.Minute, 17 * time.Minute, 65 * time.Minute}

	nsteps := s.Range(5, 60, "nsteps")
	for step := 0; step < nsteps && !s.Violated(); step++ {
		// a worker recording a result only waits for its own state lock: no decision. The coordinator
		// waiting for a worker's state (statistics, checkpoint) is a decision: while it waits, workers
		// may go on, so that a snapshot assembled from several reads of one worker can be torn.
		s.DrainIf(200, vsIsWorkerLock)
		ps := s.Settle()
		if !faultFree && vsCoordinatorWaits(ps) {
			s.Probe("coordinator-parked-mid-snapshot")
		} else {
			s.DrainIf(200, vsIsStateLock)
			w.observe(!faultFree)
			if s.Violated() {
				break
			}
			s.DrainIf(200, vsIsWorkerLock)
			ps = s.Settle()
		}
		alts := s.TaskAlts(ps, 8)
		if w.stopTask != nil && w.stopTask.Done() {
			w.stopTask = nil
			w.state = "down"
			w.graceful = true
		}
		// head announcements
		if hh := w.chain.HeadHeight(); hh < maxHeight {
			alts = append(alts, verifsim.Alt{Label: "announce next", Weight: 10, Do: func() {
				addHeaders(hh + 1)
				w.chain.Announce(w.chain.HeaderAt(hh + 1))
			}})
			alts = append(alts, verifsim.Alt{Label: "announce skipping", Weight: 3, Do: func() {
				k := uint64(s.Range(2, int(2*w.rng)+1, "skip"))
				addHeaders(hh + k)
				w.chain.Announce(w.chain.HeaderAt(hh + k))
			}})
		}
		if !faultFree {
			alts = append(alts, verifsim.Alt{Label: "announce duplicate", Weight: 1, Do: func() {
				s.Fault("dup-announce")
				w.chain.Announce(w.chain.HeaderAt(w.chain.HeadHeight()))
			}})
			if hh := w.chain.HeadHeight(); hh > w.chain.TailHeight() {
				alts = append(alts, verifsim.Alt{Label: "announce stale", Weight: 1, Do: func() {
					s.Fault("stale-announce")
					w.chain.Announce(w.chain.HeaderAt(hh - 1))
				}})
			}
		}
		// sampler outcomes
		for _, c := range w.sampler.livePending() {
			c := c
			alts = append(alts, verifsim.Alt{Label: fmt.Sprintf("sample %d ok", c.height), Weight: 8, Do: func() { w.sampler.release(c, vsOK) }})
			if !faultFree {
				alts = append(alts, verifsim.Alt{Label: fmt.Sprintf("sample %d fail", c.height), Weight: 3, Do: func() { s.Fault("sample-fail"); w.sampler.release(c, vsFail) }})
				alts = append(alts, verifsim.Alt{Label: fmt.Sprintf("sample %d outside-window", c.height), Weight: 1, Do: func() { s.Fault("outside-window"); w.sampler.release(c, vsOutside) }})
				alts = append(alts, verifsim.Alt{Label: fmt.Sprintf("sample %d cancel-like", c.height), Weight: 1, Do: func() { s.Fault("sample-cancel-like"); w.sampler.release(c, vsCancelLike) }})
			}
		}
		// time
		alts = append(alts, s.StallAlt(stalls[s.Choose(len(stalls), "stall_len")], 4))
		// process events
		if !faultFree {
			switch w.state {
			case "running":
				alts = append(alts, verifsim.Alt{Label: "stop", Weight: 2, Do: func() {
					s.Fault("graceful-stop")
					d := w.d
					to := []time.Duration{time.Minute, time.Second}[s.ChooseW([]int{4, 1}, "stop_deadline")]
					w.state = "stopping"
					w.stopTask = s.Go("stop", func() {
						ctx, cancel := context.WithTimeout(context.Background(), to)
						defer cancel()
						if err := d.Stop(ctx); err != nil {
							s.Note("Stop returned %v", err)
						}
					})
				}})
				alts = append(alts, verifsim.Alt{Label: "crash", Weight: 2, Do: func() { s.Fault("crash"); w.crash() }})
				if !faultFree {
					alts = append(alts, verifsim.Alt{Label: "header look-ups fail", Weight: 1, Do: func() {
						w.sampler.mu.Lock()
						w.hdrMiss = 1 + s.Choose(3, "failing_lookups")
						w.sampler.mu.Unlock()
					}})
				}
				if th := w.chain.TailHeight(); th+3 < w.chain.HeadHeight() && s.Cfg["tail_moved"] == nil {
					alts = append(alts, verifsim.Alt{Label: "advance tail", Weight: 1, Do: func() {
						s.Fault("tail-advance")
						s.Cfg["tail_moved"] = true
						_ = w.chain.AdvanceTail(context.Background(), th+uint64(s.Range(1, 2, "tail_by")))
					}})
				}
			case "stopping":
				alts = append(alts, verifsim.Alt{Label: "crash", Weight: 1, Do: func() { s.Fault("crash-during-stop"); w.crash() }})
			case "down":
				alts = append(alts, verifsim.Alt{Label: "restart", Weight: 12, Do: func() { w.startInstance() }})
			}
		}
		s.Pick("step", alts)
	}
	if s.Violated() {
		return
	}
	w.continuation()
}

// observe evaluates the per-step invariants from SamplingStats.
func (w *vsDAS) observe(tear bool) {
	s := w.s
	newCalls := w.newCalls
	w.newCalls = nil
	if w.state != "running" {
		return
	}
	pendBefore := w.sampler.livePending()
	st, err, torn := w.stats(tear)
	if torn {
		// calls that started while the request was in flight are not classified: exempt their heights
		// from the attempt bookkeeping clauses of this lifetime
		for _, c := range append(newCalls, w.newCalls...) {
			w.multi[c.height] = true
		}
		w.newCalls = nil
	}
	if err != nil {
		s.ViolateP("C13", "c13-coordinator-unresponsive", "SamplingStats", "SamplingStats of a running DASer failed: %v", err)
		return
	}
	if w.restored == nil {
		w.restored = map[uint64]bool{}
		for h := range st.Failed {
			w.restored[h] = true
		}
	}
	S := w.sampler.sampled
	lo := max(w.start, w.chain.TailHeight())
	pend := map[uint64]bool{}
	live := w.sampler.livePending()
	for _, c := range live {
		pend[c.height] = true
	}
	if torn {
		for _, c := range pendBefore {
			pend[c.height] = true
		}
	}
	desc := func() string {
		return fmt.Sprintf("stats{sampled_head=%d catchup_head=%d network_head=%d failed=%v workers=%+v done=%v} pending=%v sampled=%v",
			st.SampledChainHead, st.CatchupHead, st.NetworkHead, st.Failed, st.Workers, st.CatchUpDone, keysOf(pend), keysOf(S))
	}
	// ---- C04
	for x := lo; x <= st.SampledChainHead; x++ {
		if !S[x] {
			s.ViolateP("C04", "c04-sampled-head-covers-unsampled", "SampledChainHead", "SampledChainHead=%d but height %d was never sampled successfully; %s", st.SampledChainHead, x, desc())
			if s.Prop == "C13" {
				s.ViolateP("C13", "c13-stats-disagree-with-sampled", "SampledChainHead", "statistics report the chain sampled up to %d but height %d was never sampled successfully; %s", st.SampledChainHead, x, desc())
			}
			break
		}
	}
	if want := w.chain.HeadHeight(); st.NetworkHead != want {
		s.ViolateP("C04", "c04-network-head-wrong", "NetworkHead", "NetworkHead=%d, newest head learned is %d; %s", st.NetworkHead, want, desc())
	}
	for x := lo; x <= st.NetworkHead; x++ {
		if S[x] || pend[x] || x > st.CatchupHead {
			continue
		}
		if _, ok := st.Failed[x]; ok {
			continue
		}
		inWorker := false
		for _, wk := range st.Workers {
			if x >= wk.Curr && x <= wk.To {
				inWorker = true
			}
		}
		if !inWorker {
			s.ViolateP("C04", "c04-height-untracked", "stats", "height %d is not sampled, not being sampled, not queued (<= catch-up head) and not recorded as failed; %s", x, desc())
			break
		}
	}
	if torn {
		// workers went on while the request was answered: what follows compares the statistics with
		// the state of the world after the request and is judged on quiet requests only
		return
	}
	// ---- C13
	expectDone := len(st.Workers) == 0 && len(st.Failed) == 0 && st.CatchupHead >= st.NetworkHead
	if st.CatchUpDone != expectDone {
		s.ViolateP("C13", "c13-done-flag-wrong", fmt.Sprintf("CatchUpDone=%v", st.CatchUpDone), "CatchUpDone=%v but workers=%d failed=%d catchup_head=%d network_head=%d (life %d); %s",
			st.CatchUpDone, len(st.Workers), len(st.Failed), st.CatchupHead, st.NetworkHead, w.lifeNo, desc())
	}
	{
		wctx, wcancel := context.WithCancel(context.Background())
		wcancel()
		werr := w.d.WaitCatchUp(wctx)
		if (werr == nil) != st.CatchUpDone {
			s.ViolateP("C13", "c13-waitcatchup-disagrees", "WaitCatchUp", "WaitCatchUp returned %v while CatchUpDone=%v", werr, st.CatchUpDone)
		}
	}
	if st.Concurrency != len(st.Workers) {
		s.ViolateP("C13", "c13-concurrency-mismatch", "Concurrency", "Concurrency=%d, %d workers listed", st.Concurrency, len(st.Workers))
	}
	nonRecent := 0
	for _, wk := range st.Workers {
		if wk.JobType != recentJob {
			nonRecent++
		}
	}
	if nonRecent > w.maxLimit || len(st.Workers) > 2*w.maxLimit || len(live) > 2*w.maxLimit {
		s.ViolateP("C13", "c13-concurrency-exceeded", "workers", "limit=%d: %d catch-up/retry workers, %d workers in total, %d concurrent sampler calls; %s", w.limit, nonRecent, len(st.Workers), len(live), desc())
	}
	// every listed worker must be sampling something (its job has not finished)
	for _, wk := range st.Workers {
		busy := false
		for _, c := range live {
			if c.height >= wk.From && c.height <= wk.To {
				busy = true
			}
		}
		if !busy {
			s.ViolateP("C13", "c13-worker-leaked", string(wk.JobType), "worker %+v is listed but none of its heights is being sampled and no result arrived (its job never reports); %s", wk, desc())
			break
		}
	}
	// classify the calls that started since the last observation: a height is judged for retry
	// bookkeeping only if at most one of its calls in this lifetime is not known to be a retry
	// (calls that came and went unobserved, e.g. timed out inside a stall, count as non-retry)
	pendingNow := map[int]bool{}
	for _, c := range live {
		pendingNow[c.id] = true
	}
	for _, c := range newCalls {
		if c.gen != w.sampler.gen {
			continue
		}
		w.nCalls[c.height]++
		if !pendingNow[c.id] {
			continue
		}
		covering, retry := 0, 0
		for _, wk := range st.Workers {
			if c.height >= wk.From && c.height <= wk.To {
				covering++
				if wk.JobType == retryJob {
					retry++
				}
			}
		}
		if covering == 1 && retry == 1 {
			w.nRetry[c.height]++
		}
		if os.Getenv("VERIF_DEBUG") != "" {
			s.Note("call %d h=%d covering=%d retry=%d workers=%+v failed=%v", c.id, c.height, covering, retry, st.Workers, st.Failed)
		}
	}
	for h, n := range w.nCalls {
		if n-w.nRetry[h] > 1 {
			w.multi[h] = true
		}
	}
	// a failed height must not be retried in the same instant (within one process lifetime).
	// Heights restored as failed from the checkpoint are exempt: they are retried without delay
	// and may be sampled by a resumed job at the same time.
	for _, c := range newCalls {
		if c.gen != w.sampler.gen || w.restored[c.height] || w.multi[c.height] {
			continue
		}
		if ft, ok := w.sampler.lastFail[c.height]; ok && ft == s.Now() && w.sampler.alone[c.height] {
			for _, wk := range st.Workers {
				if wk.JobType == retryJob && wk.From == c.height {
					s.ViolateP("C13", "c13-retry-without-backoff", "retry", "height %d failed at t=%v and is retried at the same instant; %s", c.height, time.Duration(ft), desc())
				}
			}
		}
	}
	// attempt counts never decrease while a height stays failed
	for h, n := range st.Failed {
		if p, ok := w.prevFailed[h]; ok && n < p && !w.restored[h] && !w.multi[h] {
			s.ViolateP("C13", "c13-attempt-count-decreased", "Failed", "attempt count of failed height %d went from %d to %d; %s", h, p, n, desc())
		}
	}
	// ... and never fall behind the number of attempts that actually failed
	for h, n := range st.Failed {
		if w.restored[h] || w.multi[h] {
			continue
		}
		covered := false
		for _, wk := range st.Workers {
			if h >= wk.From && h <= wk.To {
				covered = true
			}
		}
		w.sampler.mu.Lock()
		f := w.sampler.fails[h]
		w.sampler.mu.Unlock()
		if !covered && n < f {
			s.ViolateP("C13", "c13-attempt-count-behind", "Failed", "height %d failed %d sampling attempts in this process lifetime but its attempt count is %d (the back-off went backwards); %s", h, f, n, desc())
		}
	}
	w.prevFailed = st.Failed
	if len(st.Failed) > 0 {
		s.Probe("failed-nonempty")
	}
	for _, wk := range st.Workers {
		s.Probe("worker-" + string(wk.JobType))
	}
}

func keysOf(m map[uint64]bool) []uint64 {
	out := make([]uint64, 0, len(m))
	for k, v := range m {
		if v {
			out = append(out, k)
		}
	}
	sort.Slice(out, func(i, j int) bool { return out[i] < out[j] })
	return out
}

// continuation is the fault-free tail of every run: sampling always succeeds,
// time passes generously; every height must end up sampled.
func (w *vsDAS) continuation() {
	s := w.s
	s.Drain(2000)
	if w.stopTask != nil {
		if !w.stopTask.Done() {
			// a stop that cannot finish within its own deadline once everything is released
			for i := 0; i < 5 && !w.stopTask.Done(); i++ {
				s.Stall(time.Minute)
				s.Drain(2000)
			}
		}
		if !w.stopTask.Done() {
			s.ViolateP("C13", "c13-stop-hangs", "Stop", "Stop did not return")
			return
		}
		w.stopTask = nil
		w.state = "down"
	}
	if w.state != "running" {
		w.startInstance()
	}
	lo := func() uint64 { return max(w.start, w.chain.TailHeight()) }
	missing := func() []uint64 {
		var out []uint64
		for x := lo(); x <= w.chain.HeadHeight(); x++ {
			if !w.sampler.sampled[x] {
				out = append(out, x)
			}
		}
		return out
	}
	// from here on sampling always succeeds at once
	w.sampler.mu.Lock()
	w.sampler.auto = true
	w.hdrMiss = 0
	w.sampler.mu.Unlock()
	for _, c := range w.sampler.livePending() {
		w.sampler.release(c, vsOK)
	}
	for round := 0; round < 12; round++ {
		s.Drain(2000)
		// the coordinator schedules retries only when an event wakes it up; the statistics
		// request inside observe is such an event (new heads are, in a live network)
		w.observe(false)
		if s.Violated() {
			return
		}
		s.Drain(2000)
		if len(missing()) == 0 && round > 0 {
			break
		}
		s.Stall(70 * time.Minute)
	}
	s.Drain(2000)
	w.observe(false)
	if s.Violated() {
		return
	}
	s.Settle()
	st, err, _ := w.stats(false)
	if err != nil {
		s.ViolateP("C13", "c13-coordinator-unresponsive", "SamplingStats", "SamplingStats failed in the continuation: %v", err)
		return
	}
	if ms := missing(); len(ms) > 0 {
		x := ms[0]
		tracked := x > st.CatchupHead
		if _, ok := st.Failed[x]; ok {
			tracked = true
		}
		for _, wk := range st.Workers {
			if x >= wk.Curr && x <= wk.To {
				tracked = true
			}
		}
		if tracked {
			s.ViolateP("C13", "c13-no-progress", "continuation", "heights %v still unsampled after the fault-free continuation although sampling succeeds; stats=%+v", ms, st)
		} else {
			s.ViolateP("C13", "c13-height-never-sampled", "continuation", "heights %v are never sampled in the fault-free continuation although sampling succeeds and they are not tracked anywhere; stats=%+v", ms, st)
			s.ViolateP("C04", "c04-height-lost", fmt.Sprintf("graceful=%v", w.graceful), "heights %v in [%d,%d] are never sampled after restart from the persisted checkpoint (fault-free continuation, >12h simulated); last shutdown graceful=%v; stats=%+v; checkpoint=%v",
				ms, lo(), w.chain.HeadHeight(), w.graceful, st, w.ds.Snapshot())
		}
		return
	}
	// below-tail leftovers in Failed can never be retried successfully; otherwise catch-up must be done
	belowTail := false
	for h := range st.Failed {
		if h < w.chain.TailHeight() {
			belowTail = true
		}
	}
	if !belowTail && !st.CatchUpDone {
		s.ViolateP("C13", "c13-catchup-never-done", "continuation", "every height is sampled but catch-up is not reported done: %+v", st)
	}
}

func vsIsWorkerLock(label string) bool { return strings.Contains(label, "lock@") && strings.Contains(label, "setResult") }
func vsIsStateLock(label string) bool  { return strings.Contains(label, "lock@") }

// vsCoordinatorWaits reports whether some goroutine waits for a worker's state lock on behalf of a
// snapshot (statistics or checkpoint).
func vsCoordinatorWaits(ps []verifsim.Parked) bool {
	for _, p := range ps {
		if p.Enabled && strings.Contains(p.Label, "lock@") && !vsIsWorkerLock(p.Label) {
			return true
		}
	}
	return false
}

// stats asks the running DASer for its statistics. The request runs as a task; with tear set, each
// time the coordinator is about to read a worker's state the tape may let sampler calls return first
// (at most three per request), so that workers move on between two reads of the same request. torn
// says that this happened.
func (w *vsDAS) stats(tear bool) (st SamplingStats, err error, torn bool) {
	s := w.s
	t := s.Go("stats", func() {
		ctx, cancel := context.WithTimeout(context.Background(), time.Second)
		defer cancel()
		st, err = w.d.SamplingStats(ctx)
	})
	releases, stalled := 0, false
	for i := 0; i < 2000 && !t.Done(); i++ {
		ps := s.Settle()
		if t.Done() {
			break
		}
		if tear && os.Getenv("VERIF_NOTEAR") == "" && releases < 3 && vsCoordinatorWaits(ps) {
			if live := w.sampler.livePending(); len(live) > 0 && s.Chance(1, 4, "worker_moves_during_stats") {
				c := live[s.Choose(len(live), "which_call")]
				o := vsOK
				if s.Chance(1, 2, "that_call_fails") {
					o = vsFail
				}
				s.Fault("worker-progress-during-stats")
				w.multi[c.height] = true
				w.sampler.release(c, o)
				releases++
				torn = true
				s.DrainIf(200, vsIsWorkerLock)
				continue
			}
		}
		var pick *verifsim.Parked
		for j := range ps {
			if ps[j].Enabled && (vsIsStateLock(ps[j].Label) || ps[j].Label == "start stats") {
				pick = &ps[j]
				break
			}
		}
		if pick == nil {
			if stalled {
				break
			}
			// nobody to release: the request ends by itself or runs into its deadline
			stalled = true
			s.Stall(1100 * time.Millisecond)
			continue
		}
		s.Release(*pick)
	}
	if !t.Done() {
		err = fmt.Errorf("verif: statistics request did not return")
	}
	return st, err, torn
}
