package peers

// W-PEERS: deterministic simulation world for property C17 (peer selection
// never deadlocks and never hands out a peer it should not). Injected by
// overlay as an in-package test file; see /verif/DESIGN.md §3.

import (
	"context"
	"fmt"
	"sort"
	"strings"
	"testing"
	"time"

	"github.com/ipfs/go-datastore"
	dssync "github.com/ipfs/go-datastore/sync"
	pubsub "github.com/libp2p/go-libp2p-pubsub"
	"github.com/libp2p/go-libp2p/core/event"
	"github.com/libp2p/go-libp2p/core/host"
	"github.com/libp2p/go-libp2p/core/network"
	"github.com/libp2p/go-libp2p/core/peer"
	"github.com/libp2p/go-libp2p/p2p/host/eventbus"
	"github.com/libp2p/go-libp2p/p2p/net/conngater"

	"github.com/celestiaorg/celestia-node/header"
	"github.com/celestiaorg/celestia-node/share/shwap/p2p/shrex/shrexsub"

	"github.com/celestiaorg/celestia-node/internal/verifsim"
)

func TestVerifC17(t *testing.T) {
	verifsim.Main(t, verifsim.World{
		Prop: "C17", Name: "W-PEERS",
		Run: func(s *verifsim.Sim) {
			s.WriterPref = s.Chance(1, 2, "rwmutex_writer_preference")
			s.Cfg["writer_pref"] = s.WriterPref
			if s.ChooseW([]int{1, 1}, "world") == 0 {
				vsPoolWorld(s)
			} else {
				vsManagerWorld(s)
			}
			s.Finish()
		},
		Real: []string{"peers.pool", "peers.timedQueue (benbjohnson clock on the bubble clock)", "peers.Manager (Peer, UpdateNodePool, Validate, doneFunc, subscribeHeader, subscribeDisconnectedPeers, GC/cleanUp, blacklisting)", "conngater.BasicConnectionGater", "libp2p eventbus"},
		Stub: []string{"host.Host (ID, EventBus, Network().ClosePeer)", "header subscription", "shrex-sub (Validate is called directly)"},
	})
}

// ---------------------------------------------------------------- pool world

type vsPeerModel struct {
	present  bool // added and not removed
	cooling  bool
	until    int64 // simulated ns at which the cool-down elapses
	pushedAt int64
}

type vsPoolModel struct {
	ttl   time.Duration
	peers map[peer.ID]*vsPeerModel
}

func (m *vsPoolModel) get(p peer.ID) *vsPeerModel {
	if m.peers[p] == nil {
		m.peers[p] = &vsPeerModel{}
	}
	return m.peers[p]
}

// bounds of the active count at simulated instant now: peers certainly active
// and peers whose cool-down has elapsed but whose expiry may not have run yet.
func (m *vsPoolModel) activeBounds(now int64) (lo, hi int) {
	for _, st := range m.peers {
		if !st.present {
			continue
		}
		if !st.cooling {
			lo++
			hi++
		} else if now >= st.until {
			hi++
		}
	}
	return
}

func vsPoolWorld(s *verifsim.Sim) {
	ttl := time.Duration(s.Range(1, 3, "cooldown_s")) * time.Second
	npeers := s.Range(2, 5, "npeers")
	ntasks := s.Range(2, 4, "ntasks")
	s.Cfg["world"] = "pool"
	s.Cfg["cooldown"] = ttl.String()
	s.Cfg["npeers"] = npeers
	s.Cfg["ntasks"] = ntasks

	p := newPool(ttl)
	if s.Chance(1, 3, "cleanup_threshold_low") {
		p.cleanupThreshold = 1
	}
	model := &vsPoolModel{ttl: ttl, peers: map[peer.ID]*vsPeerModel{}}
	ids := make([]peer.ID, npeers)
	for i := range ids {
		ids[i] = peer.ID(fmt.Sprintf("peer%d", i))
	}
	// some peers present from the start
	var initial []peer.ID
	for i := range ids {
		if s.Chance(1, 2, "initial") {
			initial = append(initial, ids[i])
			model.get(ids[i]).present = true
		}
	}
	s.Do("setup", func() { p.add(initial...) })

	type op struct {
		kind int
		peer peer.ID
	}
	const (
		opAdd = iota
		opRemove
		opTryGet
		opCooldown
		opHas
		opLen
		opPeers
		opWait
		nOps
	)
	names := []string{"add", "remove", "tryGet", "putOnCooldown", "has", "len", "peers", "next"}
	waitCtx, cancelWaits := context.WithCancel(context.Background())
	defer cancelWaits()
	var waiters []*verifsim.Task

	checkOffered := func(who string, id peer.ID) {
		st := model.peers[id]
		now := s.Now()
		switch {
		case st == nil || !st.present:
			s.Violate("pool-offers-removed", "pool."+who, "%s returned %s which is not in the pool (removed or never added)", who, id)
		case st.cooling && now < st.until:
			s.Violate("pool-offers-cooling", "pool."+who, "%s returned %s at t=%v, %v before its cool-down (pushed t=%v, ttl %v) elapsed",
				who, id, time.Duration(now), time.Duration(st.until-now), time.Duration(st.pushedAt), ttl)
		case st.cooling:
			st.cooling = false // expiry observed
		}
	}

	for ti := 0; ti < ntasks; ti++ {
		nops := s.Range(2, 7, "nops")
		ops := make([]op, nops)
		for i := range ops {
			ops[i] = op{kind: s.ChooseW([]int{3, 3, 4, 5, 1, 1, 1, 2}, "op"), peer: ids[s.Choose(npeers, "peer")]}
		}
		name := fmt.Sprintf("task%d", ti)
		s.Go(name, func() {
			for _, o := range ops {
				s.Note("%s: %s(%s)", name, names[o.kind], o.peer)
				switch o.kind {
				case opAdd:
					p.add(o.peer)
					st := model.get(o.peer)
					if !st.present {
						st.present, st.cooling = true, false
					}
				case opRemove:
					p.remove(o.peer)
					st := model.get(o.peer)
					st.present, st.cooling = false, false
				case opTryGet:
					id, ok := p.tryGet()
					// the model is read after the call returns: operations are serialised by the
					// pool lock and each updates the model in the scheduler step of its unlock, so
					// this is the state the critical section saw.
					if ok {
						checkOffered("tryGet", id)
					} else if lo, _ := model.activeBounds(s.Now()); lo > 0 {
						s.Violate("pool-hides-active", "pool.tryGet", "tryGet returned nothing although %d peers are active: %s", lo, vsDump(model))
					}
				case opCooldown:
					p.putOnCooldown(o.peer)
					st := model.get(o.peer)
					if st.present && !st.cooling {
						st.cooling = true
						st.pushedAt = s.Now()
						st.until = s.Now() + int64(ttl)
					}
					// present && cooling: either still cooling (no-op) or elapsed-but-unprocessed
					// (no-op as well, the peer turns active whenever the expiry runs): unchanged.
				case opHas:
					got := p.has(o.peer)
					st := model.get(o.peer)
					if got != st.present {
						s.Violate("pool-has-wrong", "pool.has", "has(%s)=%v, model says present=%v", o.peer, got, st.present)
					}
				case opLen:
					n := p.len()
					lo, hi := model.activeBounds(s.Now())
					if n < lo || n > hi {
						s.Violate("pool-count-wrong", "pool.len", "len()=%d outside [%d,%d]: %s", n, lo, hi, vsDump(model))
					}
				case opPeers:
					got := p.peers()
					want := 0
					for _, st := range model.peers {
						if st.present {
							want++
						}
					}
					if len(got) != want {
						s.Violate("pool-peers-wrong", "pool.peers", "peers() has %d entries, model %d", len(got), want)
					}
				case opWait:
					ch := p.next(waitCtx)
					select {
					case id := <-ch:
						checkOffered("next", id)
					case <-waitCtx.Done():
					}
				}
				s.Yield(name + " step")
			}
		})
	}
	_ = names
	_ = waiters

	// main phase: interleave tasks, timer callbacks and stalls
	stalls := []time.Duration{time.Millisecond, ttl / 2, ttl, ttl + time.Millisecond}
	for step := 0; step < 400; step++ {
		ps := s.Settle()
		alts := s.TaskAlts(ps, 6)
		if len(alts) == 0 {
			break
		}
		if s.Violated() {
			return
		}
		alts = append(alts, s.StallAlt(stalls[step%len(stalls)], 2))
		s.Pick("step", alts)
	}
	vsPoolEnd(s, p, model, cancelWaits)
}

func vsDump(m *vsPoolModel) string {
	var out []string
	for id, st := range m.peers {
		out = append(out, fmt.Sprintf("%s{present=%v cooling=%v until=%v}", id, st.present, st.cooling, time.Duration(st.until)))
	}
	sort.Strings(out)
	return strings.Join(out, " ")
}

// vsPoolEnd is the fair, fault-free end phase: everything must terminate.
func vsPoolEnd(s *verifsim.Sim, p *pool, model *vsPoolModel, cancelWaits func()) {
	if s.Violated() {
		return
	}
	for round := 0; round < 6; round++ {
		s.Drain(2000)
		s.Stall(model.ttl + time.Second)
	}
	s.Drain(2000)
	if un := s.Unfinished(); len(un) > 0 {
		// all cool-downs have elapsed: waiters must have been served if any peer is present
		anyPresent := false
		for _, st := range model.peers {
			anyPresent = anyPresent || st.present
		}
		rep, sig := s.BlockedReport()
		if sig != "" {
			s.Violate("pool-deadlock", sig, "tasks %v never finish; blocked: %s", un, rep)
			return
		}
		if anyPresent {
			s.Violate("pool-waiter-not-woken", "pool.next", "tasks %v still wait for a peer although the pool holds one and every cool-down elapsed: %s; %s", un, vsDump(model), rep)
			return
		}
		cancelWaits()
		s.Drain(2000)
		if un := s.Unfinished(); len(un) > 0 {
			rep, sig := s.BlockedReport()
			s.Violate("pool-cancel-ignored", "pool.next|"+sig, "tasks %v did not return after cancellation: %s", un, rep)
			return
		}
	}
	// final count check with everything quiescent and all cool-downs elapsed
	s.Go("final", func() {
		_, hi := model.activeBounds(s.Now())
		if n := p.len(); n != hi {
			s.Violate("pool-count-wrong", "pool.len.final", "after quiescence len()=%d, model has %d present peers: %s", n, hi, vsDump(model))
		}
	})
	s.Drain(100)
}

// ------------------------------------------------------------- manager world

type vsNet struct {
	network.Network
	closed map[peer.ID]int
}

func (n *vsNet) ClosePeer(p peer.ID) error { n.closed[p]++; return nil }

type vsHost struct {
	host.Host
	id  peer.ID
	bus event.Bus
	net *vsNet
}

func (h *vsHost) ID() peer.ID              { return h.id }
func (h *vsHost) EventBus() event.Bus      { return h.bus }
func (h *vsHost) Network() network.Network { return h.net }

type vsHeaderSub struct{ ch chan *header.ExtendedHeader }

func (s *vsHeaderSub) NextHeader(ctx context.Context) (*header.ExtendedHeader, error) {
	select {
	case h := <-s.ch:
		return h, nil
	case <-ctx.Done():
		return nil, ctx.Err()
	}
}
func (s *vsHeaderSub) Cancel() {}

func vsManagerWorld(s *verifsim.Sim) {
	cool := time.Duration(s.Range(1, 2, "cooldown_s")) * time.Second
	gcEvery := time.Duration(s.Range(2, 4, "gc_s")) * time.Second
	valTimeout := time.Duration(s.Range(3, 8, "validation_timeout_s")) * time.Second
	blacklisting := s.Chance(1, 2, "blacklisting")
	npeers := s.Range(2, 4, "npeers")
	nvalid := s.Range(1, 3, "nvalid_hashes")
	nbogus := s.Range(0, 2, "nbogus_hashes")
	ntasks := s.Range(2, 4, "ntasks")
	s.Cfg["world"] = "manager"
	s.Cfg["cooldown"] = cool.String()
	s.Cfg["gc"] = gcEvery.String()
	s.Cfg["validation_timeout"] = valTimeout.String()
	s.Cfg["blacklisting"] = blacklisting
	s.Cfg["npeers"], s.Cfg["nvalid"], s.Cfg["nbogus"], s.Cfg["ntasks"] = npeers, nvalid, nbogus, ntasks

	bus := eventbus.NewBus()
	h := &vsHost{id: peer.ID("self"), bus: bus, net: &vsNet{closed: map[peer.ID]int{}}}
	gater, err := conngater.NewBasicConnectionGater(dssync.MutexWrap(datastore.NewMapDatastore()))
	if err != nil {
		panic(err)
	}
	m, err := NewManager(Parameters{PoolValidationTimeout: valTimeout, PeerCooldown: cool, GcInterval: gcEvery, EnableBlackListing: blacklisting}, h, gater, "verif")
	if err != nil {
		panic(err)
	}
	ctx, cancel := context.WithCancel(context.Background())
	defer cancel()
	m.cancel = cancel
	hsub := &vsHeaderSub{ch: make(chan *header.ExtendedHeader, 64)}
	evsub, err := bus.Subscribe(&event.EvtPeerConnectednessChanged{}, eventbus.BufSize(eventbusBufSize))
	if err != nil {
		panic(err)
	}
	emitter, err := bus.Emitter(&event.EvtPeerConnectednessChanged{})
	if err != nil {
		panic(err)
	}
	s.Spawn("subscribeHeader", func() { m.subscribeHeader(ctx, hsub) })
	s.Spawn("subscribeDisconnectedPeers", func() { m.subscribeDisconnectedPeers(ctx, evsub) })
	s.Spawn("GC", func() { m.GC(ctx) })

	ids := make([]peer.ID, npeers)
	for i := range ids {
		ids[i] = peer.ID(fmt.Sprintf("peer%d", i))
	}
	type hashInfo struct {
		hash   []byte
		height uint64
		valid  bool
	}
	var hashes []hashInfo
	for i := 0; i < nvalid+nbogus; i++ {
		b := make([]byte, 32)
		b[0], b[31] = byte(i+1), 0xAA
		// heights start at 5 so that "storeFrom" stays 0 and no announcement is stale by construction
		hashes = append(hashes, hashInfo{hash: b, height: uint64(5 + i), valid: i < nvalid})
	}

	// ground truth, written at the earliest instant an effect can exist (call start)
	discovered := map[peer.ID]bool{}
	announced := map[peer.ID]map[int]bool{}
	confirmed := map[int]bool{}
	legit := func(p peer.ID) bool {
		if discovered[p] {
			return true
		}
		for hi := range announced[p] {
			if confirmed[hi] {
				return true
			}
		}
		return false
	}

	const (
		mNotify = iota
		mHeader
		mDiscover
		mUndiscover
		mDisconnect
		mGetPeer
	)
	type mop struct {
		kind, hash, result int
		peer               peer.ID
	}
	peerCtx, cancelPeers := context.WithCancel(context.Background())
	defer cancelPeers()
	timedOut := 0
	for ti := 0; ti < ntasks; ti++ {
		nops := s.Range(2, 7, "nops")
		ops := make([]mop, nops)
		for i := range ops {
			ops[i] = mop{kind: s.ChooseW([]int{6, 3, 2, 1, 1, 6}, "op"), hash: s.Choose(len(hashes), "hash"),
				result: s.ChooseW([]int{2, 2, 2}, "result"), peer: ids[s.Choose(npeers, "peer")]}
		}
		name := fmt.Sprintf("task%d", ti)
		s.Go(name, func() {
			for _, o := range ops {
				hi := hashes[o.hash]
				s.Note("%s: op=%s peer=%s hash%d(valid=%v) result=%d", name, [...]string{"notify", "header", "discover", "undiscover", "disconnect", "getPeer"}[o.kind], o.peer, o.hash, hi.valid, o.result)
				switch o.kind {
				case mNotify:
					wasBlack := m.isBlacklistedPeer(o.peer)
					if announced[o.peer] == nil {
						announced[o.peer] = map[int]bool{}
					}
					announced[o.peer][o.hash] = true
					res := m.Validate(ctx, o.peer, shrexsub.Notification{DataHash: hi.hash, Height: hi.height})
					if wasBlack && res != pubsub.ValidationReject {
						s.Violate("manager-accepts-blacklisted", "Validate", "notification from blacklisted peer %s got result %v, want reject", o.peer, res)
					}
				case mHeader:
					if !hi.valid {
						continue
					}
					confirmed[o.hash] = true
					hsub.ch <- &header.ExtendedHeader{RawHeader: header.RawHeader{Height: int64(hi.height), DataHash: hi.hash}}
				case mDiscover:
					if !m.isBlacklistedPeer(o.peer) {
						discovered[o.peer] = true
					}
					m.UpdateNodePool(o.peer, true)
				case mUndiscover:
					m.UpdateNodePool(o.peer, false)
				case mDisconnect:
					_ = emitter.Emit(event.EvtPeerConnectednessChanged{Peer: o.peer, Connectedness: network.NotConnected})
				case mGetPeer:
					if !hi.valid {
						continue // callers hold the header of the hash they ask for
					}
					black := map[peer.ID]bool{}
					for _, id := range ids {
						black[id] = m.isBlacklistedPeer(id)
					}
					confirmed[o.hash] = true
					pid, done, err := m.Peer(peerCtx, hi.hash, hi.height)
					s.Note("%s: Peer(hash%d) -> %s err=%v", name, o.hash, pid, err)
					if err != nil {
						timedOut++
						continue
					}
					if blacklisting && black[pid] {
						s.Violate("manager-offers-blacklisted", "Peer", "Peer(hash%d) returned %s, which was blacklisted before the call started", o.hash, pid)
					}
					if !announced[pid][o.hash] && !legit(pid) {
						s.Violate("manager-promotes-unconfirmed", "Peer", "Peer(hash%d) returned %s, which never came from discovery and only announced unconfirmed hashes %v", o.hash, pid, announced[pid])
					}
					s.Yield(name + " fetch")
					switch o.result {
					case 0:
						done(ResultNoop)
					case 1:
						done(ResultCooldownPeer)
					case 2:
						done(ResultBlacklistPeer)
					}
				}
				s.Yield(name + " step")
			}
		})
	}

	stalls := []time.Duration{time.Millisecond, cool, gcEvery, valTimeout + time.Second}
	for step := 0; step < 500; step++ {
		ps := s.Settle()
		alts := s.TaskAlts(ps, 6)
		if s.Violated() {
			return
		}
		if len(alts) == 0 {
			if len(s.Unfinished()) == 0 {
				break
			}
			// only natively blocked Peer() waiters are left: let time pass or go to the end phase
			if step > 60 || s.Chance(1, 3, "enough") {
				break
			}
			s.Pick("idle", []verifsim.Alt{s.StallAlt(stalls[step%len(stalls)], 1)})
			continue
		}
		alts = append(alts, s.StallAlt(stalls[step%len(stalls)], 2))
		s.Pick("step", alts)
	}

	// fair end phase: every blocked Peer() caller must be woken by a peer that becomes available.
	// Tasks go on with their remaining operations (which may blacklist or cool down the rescuer),
	// so a fresh rescuer is offered each round; the number of rounds is bounded by the task lengths.
	s.Drain(5000)
	for round := 0; round < 8*ntasks && len(s.Unfinished()) > 0; round++ {
		rescue := peer.ID(fmt.Sprintf("rescue%d", round))
		discovered[rescue] = true
		s.Do("rescue", func() { m.UpdateNodePool(rescue, true) })
		s.Drain(5000)
		if un := s.Unfinished(); len(un) > 0 {
			if rep, sig := s.BlockedReport(); sig != "" {
				s.Violate("manager-deadlock", sig, "tasks %v never finish; blocked: %s", un, rep)
				return
			}
		}
	}
	if un := s.Unfinished(); len(un) > 0 {
		rep, _ := s.BlockedReport()
		s.Violate("manager-waiter-not-woken", "Peer", "tasks %v still blocked although fresh discovered peers were added %d times; %s", un, 8*ntasks, rep)
		return
	}
	if timedOut > 0 {
		s.Violate("manager-peer-error", "Peer", "Peer returned an error %d times although its context was never cancelled", timedOut)
	}
	cancelPeers()
	cancel()
	s.Drain(5000)
	select {
	case <-m.headerSubDone:
	default:
		s.Violate("manager-stop-hangs", "subscribeHeader", "header subscription loop did not end after cancellation")
	}
	select {
	case <-m.disconnectedPeersDone:
	default:
		s.Violate("manager-stop-hangs", "subscribeDisconnectedPeers", "disconnect loop did not end after cancellation")
	}
}
