package peers

// W-PEERS: deterministic simulation world for property C17 (peer selection
// never deadlocks and never hands out a peer it should not). Injected by
// overlay as an in-package test file; see /verif/DESIGN.md §3.

import (
	"context"
	"fmt"
	"sort"
	"strings"
	"testing"
	"time"

	"github.com/libp2p/go-libp2p/core/peer"

	"github.com/celestiaorg/celestia-node/internal/verifsim"
)

func TestVerifC17(t *testing.T) {
	verifsim.Main(t, verifsim.World{
		Prop: "C17", Name: "W-PEERS",
		Run: func(s *verifsim.Sim) {
			if s.ChooseW([]int{1, 1}, "world") == 0 {
				vsPoolWorld(s)
			} else {
				vsManagerWorld(s)
			}
			s.Finish()
		},
		Real: []string{"peers.pool", "peers.timedQueue (benbjohnson clock on the bubble clock)", "peers.Manager (Peer, UpdateNodePool, Validate, doneFunc, subscribeHeader, subscribeDisconnectedPeers, GC/cleanUp, blacklisting)", "conngater.BasicConnectionGater", "libp2p eventbus"},
		Stub: []string{"host.Host (ID, EventBus, Network().ClosePeer)", "header subscription", "shrex-sub (Validate is called directly)"},
	})
}

// ---------------------------------------------------------------- pool world

type vsPeerModel struct {
	present  bool // added and not removed
	cooling  bool
	until    int64 // simulated ns at which the cool-down elapses
	pushedAt int64
}

type vsPoolModel struct {
	ttl   time.Duration
	peers map[peer.ID]*vsPeerModel
}

func (m *vsPoolModel) get(p peer.ID) *vsPeerModel {
	if m.peers[p] == nil {
		m.peers[p] = &vsPeerModel{}
	}
	return m.peers[p]
}

// bounds of the active count at simulated instant now: peers certainly active
// and peers whose cool-down has elapsed but whose expiry may not have run yet.
func (m *vsPoolModel) activeBounds(now int64) (lo, hi int) {
	for _, st := range m.peers {
		if !st.present {
			continue
		}
		if !st.cooling {
			lo++
			hi++
		} else if now >= st.until {
			hi++
		}
	}
	return
}

func vsPoolWorld(s *verifsim.Sim) {
	ttl := time.Duration(s.Range(1, 3, "cooldown_s")) * time.Second
	npeers := s.Range(2, 5, "npeers")
	ntasks := s.Range(2, 4, "ntasks")
	s.Cfg["world"] = "pool"
	s.Cfg["cooldown"] = ttl.String()
	s.Cfg["npeers"] = npeers
	s.Cfg["ntasks"] = ntasks

	p := newPool(ttl)
	if s.Chance(1, 3, "cleanup_threshold_low") {
		p.cleanupThreshold = 1
	}
	model := &vsPoolModel{ttl: ttl, peers: map[peer.ID]*vsPeerModel{}}
	ids := make([]peer.ID, npeers)
	for i := range ids {
		ids[i] = peer.ID(fmt.Sprintf("peer%d", i))
	}
	// some peers present from the start
	var initial []peer.ID
	for i := range ids {
		if s.Chance(1, 2, "initial") {
			initial = append(initial, ids[i])
			model.get(ids[i]).present = true
		}
	}
	s.Do("setup", func() { p.add(initial...) })

	type op struct {
		kind int
		peer peer.ID
	}
	const (
		opAdd = iota
		opRemove
		opTryGet
		opCooldown
		opHas
		opLen
		opPeers
		opWait
		nOps
	)
	names := []string{"add", "remove", "tryGet", "putOnCooldown", "has", "len", "peers", "next"}
	waitCtx, cancelWaits := context.WithCancel(context.Background())
	defer cancelWaits()
	var waiters []*verifsim.Task

	checkOffered := func(who string, id peer.ID) {
		st := model.peers[id]
		now := s.Now()
		switch {
		case st == nil || !st.present:
			s.Violate("pool-offers-removed", "pool."+who, "%s returned %s which is not in the pool (removed or never added)", who, id)
		case st.cooling && now < st.until:
			s.Violate("pool-offers-cooling", "pool."+who, "%s returned %s at t=%v, %v before its cool-down (pushed t=%v, ttl %v) elapsed",
				who, id, time.Duration(now), time.Duration(st.until-now), time.Duration(st.pushedAt), ttl)
		case st.cooling:
			st.cooling = false // expiry observed
		}
	}

	for ti := 0; ti < ntasks; ti++ {
		nops := s.Range(2, 7, "nops")
		ops := make([]op, nops)
		for i := range ops {
			ops[i] = op{kind: s.ChooseW([]int{3, 3, 4, 5, 1, 1, 1, 2}, "op"), peer: ids[s.Choose(npeers, "peer")]}
		}
		name := fmt.Sprintf("task%d", ti)
		s.Go(name, func() {
			for _, o := range ops {
				switch o.kind {
				case opAdd:
					p.add(o.peer)
					st := model.get(o.peer)
					if !st.present {
						st.present, st.cooling = true, false
					}
				case opRemove:
					p.remove(o.peer)
					st := model.get(o.peer)
					st.present, st.cooling = false, false
				case opTryGet:
					id, ok := p.tryGet()
					// the model is read after the call returns: operations are serialised by the
					// pool lock and each updates the model in the scheduler step of its unlock, so
					// this is the state the critical section saw.
					if ok {
						checkOffered("tryGet", id)
					} else if lo, _ := model.activeBounds(s.Now()); lo > 0 {
						s.Violate("pool-hides-active", "pool.tryGet", "tryGet returned nothing although %d peers are active: %s", lo, vsDump(model))
					}
				case opCooldown:
					p.putOnCooldown(o.peer)
					st := model.get(o.peer)
					if st.present && !st.cooling {
						st.cooling = true
						st.pushedAt = s.Now()
						st.until = s.Now() + int64(ttl)
					}
					// present && cooling: either still cooling (no-op) or elapsed-but-unprocessed
					// (no-op as well, the peer turns active whenever the expiry runs): unchanged.
				case opHas:
					got := p.has(o.peer)
					st := model.get(o.peer)
					if got != st.present {
						s.Violate("pool-has-wrong", "pool.has", "has(%s)=%v, model says present=%v", o.peer, got, st.present)
					}
				case opLen:
					n := p.len()
					lo, hi := model.activeBounds(s.Now())
					if n < lo || n > hi {
						s.Violate("pool-count-wrong", "pool.len", "len()=%d outside [%d,%d]: %s", n, lo, hi, vsDump(model))
					}
				case opPeers:
					got := p.peers()
					want := 0
					for _, st := range model.peers {
						if st.present {
							want++
						}
					}
					if len(got) != want {
						s.Violate("pool-peers-wrong", "pool.peers", "peers() has %d entries, model %d", len(got), want)
					}
				case opWait:
					ch := p.next(waitCtx)
					select {
					case id := <-ch:
						checkOffered("next", id)
					case <-waitCtx.Done():
					}
				}
				s.Yield(name + " step")
			}
		})
	}
	_ = names
	_ = waiters

	// main phase: interleave tasks, timer callbacks and stalls
	stalls := []time.Duration{time.Millisecond, ttl / 2, ttl, ttl + time.Millisecond}
	for step := 0; step < 400; step++ {
		ps := s.Settle()
		alts := s.TaskAlts(ps, 6)
		if len(alts) == 0 {
			break
		}
		if s.Violated() {
			return
		}
		alts = append(alts, s.StallAlt(stalls[step%len(stalls)], 2))
		s.Pick("step", alts)
	}
	vsPoolEnd(s, p, model, cancelWaits)
}

func vsDump(m *vsPoolModel) string {
	var out []string
	for id, st := range m.peers {
		out = append(out, fmt.Sprintf("%s{present=%v cooling=%v until=%v}", id, st.present, st.cooling, time.Duration(st.until)))
	}
	sort.Strings(out)
	return strings.Join(out, " ")
}

// vsPoolEnd is the fair, fault-free end phase: everything must terminate.
func vsPoolEnd(s *verifsim.Sim, p *pool, model *vsPoolModel, cancelWaits func()) {
	if s.Violated() {
		return
	}
	for round := 0; round < 6; round++ {
		s.Drain(2000)
		s.Stall(model.ttl + time.Second)
	}
	s.Drain(2000)
	if un := s.Unfinished(); len(un) > 0 {
		// all cool-downs have elapsed: waiters must have been served if any peer is present
		anyPresent := false
		for _, st := range model.peers {
			anyPresent = anyPresent || st.present
		}
		rep, sig := s.BlockedReport()
		if sig != "" {
			s.Violate("pool-deadlock", sig, "tasks %v never finish; blocked: %s", un, rep)
			return
		}
		if anyPresent {
			s.Violate("pool-waiter-not-woken", "pool.next", "tasks %v still wait for a peer although the pool holds one and every cool-down elapsed: %s; %s", un, vsDump(model), rep)
			return
		}
		cancelWaits()
		s.Drain(2000)
		if un := s.Unfinished(); len(un) > 0 {
			rep, sig := s.BlockedReport()
			s.Violate("pool-cancel-ignored", "pool.next|"+sig, "tasks %v did not return after cancellation: %s", un, rep)
			return
		}
	}
	// final count check with everything quiescent and all cool-downs elapsed
	s.Go("final", func() {
		_, hi := model.activeBounds(s.Now())
		if n := p.len(); n != hi {
			s.Violate("pool-count-wrong", "pool.len.final", "after quiescence len()=%d, model has %d present peers: %s", n, hi, vsDump(model))
		}
	})
	s.Drain(100)
}

func vsManagerWorld(s *verifsim.Sim) { vsPoolWorld(s) }
