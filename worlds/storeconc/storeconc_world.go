package store

// W-STORE-CONC: deterministic simulation world for C08 (concurrent store use is
// safe: no torn reads, no deadlock, no use-after-close, final state
// serialisable, descriptors released). Same real code as W-STORE-SEQ; the
// listed mutexes are simulated, every FS effect and open is a yield point.

import (
	"context"
	"errors"
	"fmt"
	mrand "math/rand/v2"
	"os"
	"path/filepath"
	"runtime"
	"sort"
	"strings"
	"syscall"
	"testing"
	"time"

	"github.com/celestiaorg/rsmt2d"

	"github.com/celestiaorg/celestia-node/internal/verifsim"
	"github.com/celestiaorg/celestia-node/internal/verifsq"
	"github.com/celestiaorg/celestia-node/share"
	"github.com/celestiaorg/celestia-node/share/eds"
	"github.com/celestiaorg/celestia-node/share/ipld"
	"github.com/celestiaorg/celestia-node/share/shwap"
)

func TestVerifC08(t *testing.T) {
	verifsim.Main(t, verifsim.World{
		Prop: "C08", Name: "W-STORE-CONC",
		Run: func(s *verifsim.Sim) {
			dir, err := os.MkdirTemp("", "vconc-")
			if err != nil {
				panic(err)
			}
			defer os.RemoveAll(dir)
			defer verifsim.InstallFS(nil)
			defer ipld.VerifNewPool()()
			vsConcWorld(s, dir)
			s.Finish()
		},
		Real: []string{"store.Store", "store.CachedStore", "store/striplock", "store/cache (AccessorCache, DoubleCache, ref counting, eviction)", "store/file (ODS, Q4, ODSQ4 lazy Q4 open, in-memory ODS cache)", "share/eds wrappers (proofs cache, close-once, validation)", "real file system of a scratch directory"},
		Stub: []string{"none (simulated mutexes and FS shims are pass-through name substitutions with yield points)"},
	})
}

type vsConcOp struct {
	task, idx  int
	kind       string
	h          uint64
	hold       int
	start, end int // scheduler step numbers; end<0 while running
	err        error
}

func (o *vsConcOp) String() string { return fmt.Sprintf("t%d.%d:%s(%d)", o.task, o.idx, o.kind, o.h) }

func vsConcWorld(s *verifsim.Sim, dir string) {
	ctx := context.Background()
	rng := mrand.New(mrand.NewPCG(uint64(s.Choose(1<<16, "data_seed")), 3))
	s.WriterPref = s.Chance(1, 2, "rwmutex_writer_preference")
	recent := s.Range(0, 2, "recent_cache")
	serving := s.Range(1, 2, "serving_cache")
	heights := []uint64{5, 261, 1029}
	nh := s.Range(1, 3, "nheights")
	heights = heights[:nh]
	w := []int{1, 2, 2, 4}[s.Choose(4, "ods_width")]
	sqA := verifsq.Gen(rng, w, -1)
	sqB := verifsq.Gen(rng, w, -1)
	sqOf := map[uint64]*verifsq.Square{}
	for i, h := range heights {
		sqOf[h] = sqA
		if i > 0 && s.Choose(2, "same_hash") == 0 {
			sqOf[h] = sqB
		}
		if s.Chance(1, 6, "empty_block") {
			sqOf[h] = verifsq.Empty()
		}
	}
	ntasks := s.Range(2, 4, "ntasks")
	s.Cfg["recent_cache"], s.Cfg["serving_cache"], s.Cfg["nheights"], s.Cfg["ods_width"], s.Cfg["ntasks"], s.Cfg["writer_pref"] = recent, serving, nh, w, ntasks, s.WriterPref

	live := filepath.Join(dir, "live")
	_ = os.Mkdir(live, 0o755)
	ctl := &verifsim.FSControl{YieldEffects: true, YieldAccesses: true}
	verifsim.InstallFS(ctl)
	var st *Store
	var cs *CachedStore
	params := &Parameters{RecentBlocksCacheSize: recent}
	if !s.Do("setup", func() {
		var err error
		st, err = NewStore(params, live)
		if err != nil {
			panic(err)
		}
		cs, err = st.WithCache("serving", serving)
		if err != nil {
			panic(err)
		}
	}) {
		panic("store setup did not finish")
	}

	kinds := []string{"PutODS", "PutODSQ4", "Get", "CachedGet", "Has", "RemoveODSQ4", "RemoveQ4", "NestedGet"}
	var ops []*vsConcOp
	// held: accessors the reader tasks of the run hold at this moment (obtained, not yet closed)
	held := 0
	apply := func(st *Store, cs *CachedStore, o *vsConcOp, judge bool, name string) error {
		sq := sqOf[o.h]
		switch o.kind {
		case "PutODS":
			return st.PutODS(ctx, sq.Roots, o.h, sq.EDS)
		case "PutODSQ4":
			return st.PutODSQ4(ctx, sq.Roots, o.h, sq.EDS)
		case "RemoveODSQ4":
			return st.RemoveODSQ4(ctx, o.h, sq.Roots.Hash())
		case "RemoveQ4":
			return st.RemoveQ4(ctx, o.h, sq.Roots.Hash())
		case "Has":
			_, err := st.HasByHeight(ctx, o.h)
			return err
		case "NestedGet":
			// a reader that uses the store while it holds an accessor: cached get of o.h, then (still
			// holding it) a cached get of a height on the same cache stripe, then reads through the first
			acc, err := cs.GetByHeight(ctx, o.h)
			if err != nil {
				if errors.Is(err, ErrNotFound) || !judge {
					return nil
				}
				return err
			}
			if judge {
				held++
				defer func() { held-- }()
			}
			other := heights[(len(heights)+int(o.h)%len(heights)+1)%len(heights)]
			if acc2, err2 := cs.GetByHeight(ctx, other); err2 == nil {
				_ = acc2.Close()
			}
			if judge {
				vsHeldReads(s, ctx, acc, sq, o, rng, name)
			}
			return acc.Close()
		case "Get", "CachedGet":
			var acc eds.AccessorStreamer
			var err error
			if o.kind == "Get" {
				acc, err = st.GetByHeight(ctx, o.h)
			} else {
				acc, err = cs.GetByHeight(ctx, o.h)
			}
			if err != nil {
				if errors.Is(err, ErrNotFound) || !judge {
					return nil
				}
				return err
			}
			if judge {
				held++
				defer func() { held-- }()
				vsHeldReads(s, ctx, acc, sq, o, rng, name)
			}
			return acc.Close()
		}
		return nil
	}
	for ti := 0; ti < ntasks; ti++ {
		n := s.Range(1, 3, "nops")
		var mine []*vsConcOp
		for i := 0; i < n; i++ {
			o := &vsConcOp{task: ti, idx: i, kind: kinds[s.ChooseW([]int{3, 4, 4, 3, 1, 3, 2, 3}, "op")], h: heights[s.Choose(len(heights), "height")], hold: s.Range(1, 5, "hold"), end: -1}
			mine = append(mine, o)
			ops = append(ops, o)
		}
		name := fmt.Sprintf("task%d", ti)
		s.Go(name, func() {
			for _, o := range mine {
				o.start = s.Steps
				o.err = apply(st, cs, o, true, name)
				o.end = s.Steps
				s.Note("%s done err=%v", o, o.err)
				if o.err != nil {
					s.Violate("c08-operation-fails", o.kind, "%s failed without any injected fault: %v", o, o.err)
				}
				s.Yield(name + " next")
			}
		})
	}
	var opNames []string
	for _, o := range ops {
		opNames = append(opNames, o.String())
	}
	s.Cfg["ops"] = strings.Join(opNames, " ")

	for step := 0; step < 6000 && !s.Violated(); step++ {
		ps := s.Settle()
		alts := s.TaskAlts(ps, 1)
		if len(alts) == 0 {
			break
		}
		s.Pick("step", alts)
	}
	if s.Violated() {
		return
	}
	// (2a) nothing can proceed, operations are unfinished and no reader holds an accessor: whatever the
	// operations wait for, it is not a reader - only the cache's close timeout (a safety net against
	// readers that forget to close) can end the wait, i.e. the store waits for itself
	if un := s.Unfinished(); len(un) > 0 && held == 0 {
		rep, _ := s.BlockedReport()
		s.Violate("c08-waits-for-itself", "close-timeout", "tasks %v cannot proceed although no reader holds an accessor: the operations wait for a reference the store itself holds and only the cache's close timeout ends the wait (ops: %s); blocked: %s", un, opNames, rep)
		return
	}
	// (2) every operation returns; goroutines waiting for readers (bounded by the close timeout) get their time
	for i := 0; i < 3 && len(s.Unfinished()) > 0; i++ {
		s.Stall(2 * time.Minute)
		s.Drain(4000)
	}
	s.Drain(4000)
	if un := s.Unfinished(); len(un) > 0 {
		rep, sig := s.BlockedReport()
		clause := "c08-operation-never-returns"
		if sig != "" {
			clause = "c08-deadlock"
		}
		s.Violate(clause, sig, "tasks %v never finish (ops: %s); blocked: %s", un, opNames, rep)
		return
	}
	// let evictions finish closing
	s.Stall(2 * time.Minute)
	s.Drain(4000)

	// (3) the observable content equals some sequential application of the completed operations
	observe := func(st *Store) string {
		var sb strings.Builder
		for _, h := range heights {
			has, _ := st.HasByHeight(ctx, h)
			ok := "-"
			if has {
				acc, err := st.GetByHeight(ctx, h)
				if err != nil {
					ok = "unreadable:" + err.Error()
				} else {
					bad := sqOf[h].CheckAccessor(ctx, acc, &verifsq.CheckOpts{Rng: rng, MaxSamples: 8, MaxRanges: 3})
					_ = acc.Close()
					ok = "ok"
					if len(bad) > 0 {
						ok = "WRONG:" + bad[0]
					}
				}
			}
			sb.WriteString(fmt.Sprintf("h%d:has=%v,%s ", h, has, ok))
		}
		for _, sq := range []*verifsq.Square{sqA, sqB} {
			q4, _ := st.HasQ4ByHash(ctx, sq.Roots.Hash())
			ods, _ := st.HasByHash(ctx, sq.Roots.Hash())
			sb.WriteString(fmt.Sprintf("hash%x:ods=%v,q4=%v ", sq.Roots.Hash()[:2], ods, q4))
		}
		return sb.String()
	}
	var got string
	if !s.Do("observe", func() { got = observe(st) }) {
		rep, sig := s.BlockedReport()
		s.Violate("c08-deadlock", sig, "the store does not answer after all operations returned: %s", rep)
		return
	}
	if strings.Contains(got, "WRONG:") || strings.Contains(got, "unreadable:") {
		s.Violate("c08-final-content-wrong", "observe", "after quiescence the store serves wrong data: %s (ops: %s)", got, opNames)
		return
	}
	resume := ctl.Pause()
	matched, tried := false, 0
	var firstRef string
	vsOrders(ops, 120, func(order []*vsConcOp) bool {
		tried++
		rdir := filepath.Join(dir, fmt.Sprintf("ref%d", tried))
		_ = os.Mkdir(rdir, 0o755)
		var ref string
		s.Do("reference", func() {
			rst, err := NewStore(params, rdir)
			if err != nil {
				panic(err)
			}
			rcs, err := rst.WithCache("serving", serving)
			if err != nil {
				panic(err)
			}
			for _, o := range order {
				_ = apply(rst, rcs, o, false, "ref")
			}
			ref = observe(rst)
		})
		s.Stall(2 * time.Minute) // reference store's evictions
		s.Drain(2000)
		_ = os.RemoveAll(rdir)
		if firstRef == "" {
			firstRef = ref
		}
		matched = ref == got
		return matched
	})
	resume()
	switch {
	case matched:
		s.Probe("serialisable")
	case tried >= 120:
		s.Probe("serialisability-inconclusive")
	default:
		sig := "observe"
		// a narrower signature for one way of getting here: a height whose link is gone from the disk is
		// still reported and served (out of a cache), and a cached read of that height overlapped one of
		// its removals
		for _, h := range heights {
			has := false
			s.Do("has", func() { has, _ = st.HasByHeight(ctx, h) })
			if _, err := os.Lstat(st.heightToPath(h, odsFileExt)); !has || err == nil {
				continue
			}
			for _, rd := range ops {
				reads := (rd.kind == "CachedGet" && rd.h == h) ||
					(rd.kind == "NestedGet" && (rd.h == h || heights[(len(heights)+int(rd.h)%len(heights)+1)%len(heights)] == h))
				if !reads {
					continue
				}
				for _, rm := range ops {
					if rm.kind == "RemoveODSQ4" && rm.h == h && rm.start <= rd.end && rd.start <= rm.end {
						sig = "cached read raced the removal of the height: it stays served from the cache"
					}
				}
			}
		}
		s.Violate("c08-final-state-not-serialisable", sig, "after quiescence the store holds {%s}, which none of the %d sequential orders of the completed operations produces (completion order gives {%s}); ops: %s", got, tried, firstRef, opNames)
		return
	}

	// (4) descriptors are released once everything is removed
	if !s.Do("cleanup", func() {
		for _, h := range heights {
			_ = st.RemoveODSQ4(ctx, h, sqOf[h].Roots.Hash())
		}
	}) {
		rep, sig := s.BlockedReport()
		s.Violate("c08-deadlock", sig, "removing all blocks after the run does not finish: %s", rep)
		return
	}
	s.Stall(3 * time.Minute)
	s.Drain(4000)
	// after every height was removed at rest, neither the store nor the caching store may still serve one
	var still string
	s.Do("observe-removed", func() {
		for _, h := range heights {
			if has, _ := st.HasByHeight(ctx, h); has {
				still += fmt.Sprintf("Store.HasByHeight(%d)=true ", h)
			}
			if has, _ := cs.HasByHeight(ctx, h); has {
				still += fmt.Sprintf("CachedStore.HasByHeight(%d)=true ", h)
			}
			if acc, err := cs.GetByHeight(ctx, h); err == nil {
				_ = acc.Close()
				still += fmt.Sprintf("CachedStore.GetByHeight(%d) serves ", h)
			}
		}
	})
	if still != "" {
		s.Violate("c08-removed-block-still-served", "after-removal", "every height was removed after the run came to rest, yet: %s(ops: %s)", still, opNames)
		return
	}
	// finalizers (os.File cleanups of files nobody closed explicitly, e.g. the size validation of an
	// existing ODS file) run on a goroutine outside the bubble: wait for them in real time
	before := verifsim.OpenFDsUnder(live)
	var fds []string
	for i := 0; i < 60 && len(before) > 0; i++ {
		// finalizers run on a goroutine outside the bubble: wait for them in real time
		runtime.GC()
		ts := syscall.Timespec{Nsec: 3_000_000}
		_ = syscall.Nanosleep(&ts, nil)
		if fds = verifsim.OpenFDsUnder(live); len(fds) == 0 {
			break
		}
	}
	switch {
	case len(before) > 0 && len(fds) > 0:
		s.Violate("c08-descriptor-leak", "fd", "after all readers closed and all blocks were removed, %d descriptors still point into the store, also after repeated GC cycles: %v (ops: %s)", len(fds), fds, opNames)
	case len(before) > 0:
		s.Violate("c08-descriptor-leak", "fd-until-gc", "after all readers closed and all blocks were removed, %d descriptors still point into the store (nobody closed them; only the garbage collector finalizing the files released them): %v (ops: %s)", len(before), before, opNames)
	}
}

// vsHeldReads keeps an accessor open across o.hold further scheduling points and reads through it.
func vsHeldReads(s *verifsim.Sim, ctx context.Context, acc eds.AccessorStreamer, sq *verifsq.Square, o *vsConcOp, rng *mrand.Rand, name string) {
	size := 2 * sq.ODSW
	for i := 0; i < o.hold; i++ {
		s.Yield(name + " holds")
		var err error
		what := ""
		switch rng.IntN(5) {
		case 0, 1: // sample, biased to the parity quadrant (lazy Q4 open)
			c := shwap.SampleCoords{Row: sq.ODSW + rng.IntN(sq.ODSW), Col: sq.ODSW + rng.IntN(sq.ODSW)}
			if rng.IntN(3) == 0 {
				c = shwap.SampleCoords{Row: rng.IntN(size), Col: rng.IntN(size)}
			}
			what = fmt.Sprintf("Sample(%d,%d)", c.Row, c.Col)
			var smp shwap.Sample
			smp, err = acc.Sample(ctx, c)
			if err == nil && (string(smp.Share.ToBytes()) != string(sq.EDS.GetCell(uint(c.Row), uint(c.Col))) || smp.Verify(sq.Roots, c.Row, c.Col) != nil) {
				s.Violate("c08-torn-read", "Sample", "%s: %s through a held accessor returned a share that is not the block's", o, what)
				return
			}
		case 2:
			ax := []rsmt2d.Axis{rsmt2d.Row, rsmt2d.Col}[rng.IntN(2)]
			i := rng.IntN(size)
			what = fmt.Sprintf("AxisHalf(%v,%d)", ax, i)
			var half shwap.AxisHalf
			half, err = acc.AxisHalf(ctx, ax, i)
			if err == nil {
				ext, e2 := half.Extended()
				ref := sq.EDS.Row(uint(i))
				if ax == rsmt2d.Col {
					ref = sq.EDS.Col(uint(i))
				}
				if e2 != nil || len(ext) != size {
					s.Violate("c08-torn-read", "AxisHalf", "%s: %s through a held accessor cannot be extended: %v", o, what, e2)
					return
				}
				for j := range ext {
					if string(ext[j].ToBytes()) != string(ref[j]) {
						s.Violate("c08-torn-read", "AxisHalf", "%s: %s through a held accessor differs from the block at share %d", o, what, j)
						return
					}
				}
			}
		case 3:
			what = "Shares"
			shs, e := acc.Shares(ctx)
			err = e
			if err == nil {
				for j := range shs {
					if j >= len(sq.Shares) || string(shs[j].ToBytes()) != string(sq.Shares[j].ToBytes()) {
						s.Violate("c08-torn-read", "Shares", "%s: Shares() through a held accessor differs from the block at share %d", o, j)
						return
					}
				}
			}
		case 4:
			what = "AxisRoots"
			r, e := acc.AxisRoots(ctx)
			err = e
			if err == nil && !r.Equals(sq.Roots) {
				s.Violate("c08-torn-read", "AxisRoots", "%s: AxisRoots through a held accessor differ", o)
				return
			}
		}
		if err != nil {
			s.Violate("c08-held-accessor-fails", vsFirstWordC(what), "%s: %s through an accessor the reader still holds failed: %v", o, what, err)
			return
		}
	}
}

func vsFirstWordC(x string) string {
	if i := strings.IndexAny(x, "(: "); i > 0 {
		return x[:i]
	}
	return x
}

// vsOrders calls fn with sequential orders of the operations that respect
// real-time precedence (a.end < b.start => a before b): completion order
// first, then start order, then a depth-first enumeration, up to limit orders
// or until fn returns true.
func vsOrders(ops []*vsConcOp, limit int, fn func([]*vsConcOp) bool) {
	n := 0
	seen := map[string]bool{}
	try := func(o []*vsConcOp) bool {
		var k strings.Builder
		for _, x := range o {
			k.WriteString(x.String())
		}
		if seen[k.String()] {
			return false
		}
		seen[k.String()] = true
		n++
		return fn(o)
	}
	byEnd := append([]*vsConcOp(nil), ops...)
	sort.SliceStable(byEnd, func(i, j int) bool { return byEnd[i].end < byEnd[j].end })
	if try(byEnd) {
		return
	}
	byStart := append([]*vsConcOp(nil), ops...)
	sort.SliceStable(byStart, func(i, j int) bool { return byStart[i].start < byStart[j].start })
	if try(byStart) {
		return
	}
	// Has/Get do not change the content: only the order of the others matters
	var mut []*vsConcOp
	for _, o := range byEnd {
		if o.kind != "Has" && o.kind != "Get" && o.kind != "CachedGet" && o.kind != "NestedGet" {
			mut = append(mut, o)
		}
	}
	used := make([]bool, len(mut))
	var cur []*vsConcOp
	var dfs func() bool
	dfs = func() bool {
		if n >= limit {
			return true
		}
		if len(cur) == len(mut) {
			return try(append([]*vsConcOp(nil), cur...))
		}
		for i, o := range mut {
			if used[i] {
				continue
			}
			ok := true
			for j, p := range mut {
				if !used[j] && j != i && p.end < o.start {
					ok = false // p must come before o
				}
			}
			if !ok {
				continue
			}
			used[i] = true
			cur = append(cur, o)
			if dfs() {
				return true
			}
			cur = cur[:len(cur)-1]
			used[i] = false
		}
		return false
	}
	dfs()
}

var _ = share.DataHash(nil)
