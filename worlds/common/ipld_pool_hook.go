package ipld

import "github.com/gammazero/workerpool"

// VerifNewPool (added by the /verif overlay, not part of the repository)
// replaces the package-level worker pool, whose goroutines were started at
// package init outside any synctest bubble, by one created by the caller
// (inside the bubble of the current simulated run). The returned function
// stops it and restores the previous pool.
func VerifNewPool() func() {
	old := pool
	pool = workerpool.New(NumWorkersLimit)
	return func() {
		pool.Stop()
		pool = old
	}
}
