package verifforge

// W-NET, byzantine responder (direct mode): deterministic simulation world for
// C01 (verified shares are exactly the committed shares at the requested
// position) and C02 (verified namespace data is complete). Real: all shwap
// containers, producers, wire codecs and Verify methods, share.RowsWithNamespace,
// eds.NamespaceData with both producers (plain and proofs-cache). The
// byzantine party is simulated: it holds the honest square and a second one.

import (
	"bytes"
	"context"
	"crypto/sha256"
	"fmt"
	mrand "math/rand/v2"
	"os"
	"testing"

	"github.com/celestiaorg/celestia-app/v9/pkg/appconsts"
	"github.com/celestiaorg/celestia-app/v9/pkg/wrapper"
	libshare "github.com/celestiaorg/go-square/v4/share"
	"github.com/celestiaorg/nmt"
	"github.com/celestiaorg/rsmt2d"

	"github.com/celestiaorg/celestia-node/internal/verifsim"
	"github.com/celestiaorg/celestia-node/internal/verifsq"
	"github.com/celestiaorg/celestia-node/share"
	"github.com/celestiaorg/celestia-node/share/eds"
	"github.com/celestiaorg/celestia-node/share/ipld"
	"github.com/celestiaorg/celestia-node/share/shwap"
)

func TestVerifForge(t *testing.T) {
	prop := os.Getenv("VERIF_PROP")
	if prop == "" {
		prop = "C01"
	}
	verifsim.Main(t, verifsim.World{
		Prop: prop, Name: "W-NET/byzantine-responder",
		Run:  func(s *verifsim.Sim) { defer ipld.VerifNewPool()(); vsForgeWorld(s); s.Finish() },
		Real: []string{"shwap.Sample / Row / RowNamespaceData / NamespaceData / RangeNamespaceData: producers, protobuf + length-delimited codecs, Verify / VerifyInclusion", "share.RowsWithNamespace, share.ExtendShares", "eds.NamespaceData over eds.Rsmt2D and over eds.WithProofsCache"},
		Stub: []string{"the responder (byzantine party holding the honest and a second square)", "transport (answers go straight from the codec's writer into its reader)"},
	})
}

type vsF struct {
	s    *verifsim.Sim
	rng  *mrand.Rand
	a, b *verifsq.Square
	w    int
	log  []string
}

func (f *vsF) step(name string) { f.log = append(f.log, name); f.s.Fault("forge-" + name) }

func (f *vsF) rowShares(sq *verifsq.Square, r int) []libshare.Share {
	shs, err := libshare.FromBytes(sq.EDS.Row(uint(r)))
	if err != nil {
		panic(err)
	}
	return shs
}

func vsEq(a, b []libshare.Share) bool {
	if len(a) != len(b) {
		return false
	}
	for i := range a {
		if !bytes.Equal(a[i].ToBytes(), b[i].ToBytes()) {
			return false
		}
	}
	return true
}

// mutate flips / truncates / extends wire bytes
func (f *vsF) mutate(b []byte) []byte {
	if len(b) == 0 {
		return b
	}
	out := append([]byte{}, b...)
	switch f.s.Choose(4, "mutation") {
	case 0:
		out[f.rng.IntN(len(out))] ^= byte(1 << f.rng.IntN(8))
	case 1:
		out = out[:f.rng.IntN(len(out))]
	case 2:
		out = append(out, byte(f.rng.IntN(256)))
	case 3:
		i := f.rng.IntN(len(out))
		out[i] = byte(f.rng.IntN(256))
	}
	f.step("byte-mutation")
	return out
}

func vsForgeWorld(s *verifsim.Sim) {
	rng := mrand.New(mrand.NewPCG(uint64(s.Choose(1<<16, "data_seed")), 31))
	w := []int{1, 2, 2, 4, 4, 8}[s.Choose(6, "ods_width")]
	f := &vsF{s: s, rng: rng, w: w}
	f.a = verifsq.Gen(rng, w, -1)
	f.b = verifsq.Gen(rng, w, -1)
	s.Cfg["ods_width"], s.Cfg["filled"] = w, f.a.Filled
	kinds := []string{"sample", "row", "rownd", "nd", "range"}
	if s.Prop == "C02" {
		kinds = []string{"rownd", "nd"}
	}
	kind := kinds[s.Choose(len(kinds), "request")]
	s.Cfg["request"] = kind
	switch kind {
	case "sample":
		f.sample()
	case "row":
		f.row()
	case "rownd":
		f.rowND()
	case "nd":
		f.nsData()
	case "range":
		f.rangeData()
	}
	s.Cfg["forgery"] = fmt.Sprint(f.log)
}

// ---------------------------------------------------------------- sample

func (f *vsF) sample() {
	s, size := f.s, 2*f.w
	r, c := f.rng.IntN(size), f.rng.IntN(size)
	mk := func(sq *verifsq.Square, r, c int, ax rsmt2d.Axis) shwap.Sample {
		acc := &eds.Rsmt2D{ExtendedDataSquare: sq.EDS}
		smp, err := acc.SampleForProofAxis(shwap.SampleCoords{Row: r, Col: c}, ax)
		if err != nil {
			panic(err)
		}
		return smp
	}
	ax := []rsmt2d.Axis{rsmt2d.Row, rsmt2d.Col}[s.Choose(2, "proof_axis")]
	smp := mk(f.a, r, c, ax)
	for i, n := 0, s.Choose(3, "forgery_steps"); i < n; i++ {
		switch s.Choose(8, "sample_forgery") {
		case 7:
			// the share of another row of the same column with its genuine column proof, labelled with a
			// proof type outside the enum (on the wire the type is a signed enum)
			smp = mk(f.a, (r+1+f.rng.IntN(size-1))%size, c, rsmt2d.Col)
			smp.ProofType = []rsmt2d.Axis{-1, 2, 7, 255}[f.rng.IntN(4)]
			f.step("proof-type-outside-enum")
		case 0:
			smp = mk(f.a, r, (c+1)%size, ax)
			f.step("neighbour-col")
		case 1:
			smp = mk(f.a, (r+1)%size, c, ax)
			f.step("neighbour-row")
		case 2:
			smp = mk(f.a, c, r, ax)
			f.step("transposed")
		case 3:
			smp.ProofType = 1 - smp.ProofType
			f.step("axis-flag-flipped")
		case 4:
			o := mk(f.b, r, c, ax)
			smp.Share = o.Share
			f.step("share-of-other-square")
		case 5:
			o := mk(f.b, r, c, ax)
			smp.Proof = o.Proof
			f.step("proof-of-other-square")
		case 6:
			o := mk(f.a, r, c, 1-ax)
			smp.Proof = o.Proof
			f.step("proof-of-other-axis")
		}
	}
	var buf bytes.Buffer
	if _, err := smp.WriteTo(&buf); err != nil {
		return
	}
	wire := buf.Bytes()
	if s.Chance(1, 4, "mutate") {
		wire = f.mutate(wire)
	}
	var got shwap.Sample
	if _, err := got.ReadFrom(bytes.NewReader(wire)); err != nil {
		if len(f.log) == 0 {
			s.ViolateP("C01", "c01-honest-answer-rejected", "sample-decode", "honest sample (%d,%d) does not survive its own codec: %v", r, c, err)
		}
		return
	}
	if got.IsEmpty() {
		return
	}
	err := got.Verify(f.a.Roots, r, c)
	if err != nil {
		if len(f.log) == 0 {
			s.ViolateP("C01", "c01-honest-answer-rejected", "sample", "honest sample (%d,%d) with %v proof is rejected: %v", r, c, ax, err)
		}
		return
	}
	if !bytes.Equal(got.Share.ToBytes(), f.a.EDS.GetCell(uint(r), uint(c))) {
		s.ViolateP("C01", "c01-forged-answer-accepted", "sample", "a sample for (%d,%d) of a %dx%d square verifies although its share is not the committed one; forgery %v", r, c, size, size, f.log)
	}
}

// ---------------------------------------------------------------- row

func (f *vsF) row() {
	s, size := f.s, 2*f.w
	r := f.rng.IntN(size)
	side := []shwap.RowSide{shwap.Left, shwap.Right, shwap.Both}[s.Choose(3, "row_side")]
	row, err := shwap.RowFromEDS(f.a.EDS, r, side)
	if err != nil {
		panic(err)
	}
	shs := func(sq *verifsq.Square, r int, side shwap.RowSide) []libshare.Share {
		all := f.rowShares(sq, r)
		switch side {
		case shwap.Left:
			return all[:f.w]
		case shwap.Right:
			return all[f.w:]
		}
		return all
	}
	cur, curSide := shs(f.a, r, side), side
	for i, n := 0, s.Choose(3, "forgery_steps"); i < n; i++ {
		switch s.Choose(7, "row_forgery") {
		case 0:
			cur = shs(f.a, (r+1)%size, curSide)
			f.step("other-row")
		case 1:
			if curSide != shwap.Both {
				curSide = 1 - curSide
				f.step("side-flag-flipped")
			}
		case 2:
			cur = shs(f.b, r, curSide)
			f.step("other-square")
		case 3:
			if len(cur) > 1 {
				cur = append(append([]libshare.Share{}, cur[1:]...), cur[0])
				f.step("rotated")
			}
		case 4:
			if len(cur) > 1 {
				cur = cur[:len(cur)-1]
				f.step("shortened")
			}
		case 5:
			col, err := libshare.FromBytes(f.a.EDS.Col(uint(r)))
			if err == nil {
				if curSide == shwap.Left {
					cur = col[:f.w]
				} else if curSide == shwap.Right {
					cur = col[f.w:]
				} else {
					cur = col
				}
				f.step("column-as-row")
			}
		case 6:
			if len(cur) > 1 {
				j := f.rng.IntN(len(cur))
				o := shs(f.b, r, curSide)
				if j < len(o) {
					cur = append([]libshare.Share{}, cur...)
					cur[j] = o[j]
					f.step("one-share-spliced")
				}
			}
		}
	}
	if len(f.log) > 0 {
		row = shwap.NewRow(cur, curSide)
	}
	var buf bytes.Buffer
	if _, err := row.WriteTo(&buf); err != nil {
		return
	}
	wire := buf.Bytes()
	if s.Chance(1, 4, "mutate") {
		wire = f.mutate(wire)
	}
	var got shwap.Row
	if _, err := got.ReadFrom(bytes.NewReader(wire)); err != nil {
		if len(f.log) == 0 {
			s.ViolateP("C01", "c01-honest-answer-rejected", "row-decode", "honest row %d does not survive its codec: %v", r, err)
		}
		return
	}
	if got.IsEmpty() {
		return
	}
	if err := got.Verify(f.a.Roots, r); err != nil {
		if len(f.log) == 0 {
			s.ViolateP("C01", "c01-honest-answer-rejected", "row", "honest row %d (side %v) is rejected: %v", r, side, err)
		}
		return
	}
	full, err := got.Shares()
	if err != nil || !vsEq(full, f.rowShares(f.a, r)) {
		s.ViolateP("C01", "c01-forged-answer-accepted", "row", "a row response for row %d verifies although its shares are not the committed row (err=%v); forgery %v", r, err, f.log)
	}
}

// ---------------------------------------------------------------- row namespace data

type vsNSCase struct {
	ns   libshare.Namespace
	rows []int
}

func (f *vsF) pickNamespace() vsNSCase {
	all := append(append([]libshare.Namespace{}, f.a.Present...), f.a.Absent...)
	ns := all[f.s.Choose(len(all), "namespace")]
	rows, err := share.RowsWithNamespace(f.a.Roots, ns)
	if err != nil {
		panic(err)
	}
	return vsNSCase{ns, rows}
}

func (f *vsF) honestRND(sq *verifsq.Square, ns libshare.Namespace, r int) (shwap.RowNamespaceData, error) {
	return shwap.RowNamespaceDataFromShares(f.rowShares(sq, r), ns, r)
}

// wantRow is the reference: the shares of ns in ODS row r, in order.
func (f *vsF) wantRow(ns libshare.Namespace, r int) []libshare.Share {
	var out []libshare.Share
	if r >= f.w {
		return nil
	}
	for _, sh := range f.a.Shares[r*f.w : (r+1)*f.w] {
		if sh.Namespace().Equals(ns) {
			out = append(out, sh)
		}
	}
	return out
}

// forgeRND derives a dishonest row answer for (ns, r); ok=false if the step does not apply.
func (f *vsF) forgeRND(cur shwap.RowNamespaceData, ns libshare.Namespace, r int) (shwap.RowNamespaceData, bool) {
	s := f.s
	row := f.rowShares(f.a, r)
	// position of the namespace's run in the row
	from, cnt := -1, 0
	for i := 0; i < f.w; i++ {
		if row[i].Namespace().Equals(ns) {
			if cnt == 0 {
				from = i
			}
			cnt++
		}
	}
	prove := func(a, b int) *nmt.Proof {
		p, err := shwap.GenerateSharesProofs(r, a, b, f.w, row)
		if err != nil {
			return nil
		}
		return p
	}
	switch s.Choose(11, "rownd_forgery") {
	case 0: // drop the first share, narrower proof
		if cnt >= 2 {
			if p := prove(from+1, from+cnt); p != nil {
				f.step("first-share-dropped")
				return shwap.RowNamespaceData{Shares: row[from+1 : from+cnt], Proof: p}, true
			}
		}
	case 1: // drop the last share
		if cnt >= 2 {
			if p := prove(from, from+cnt-1); p != nil {
				f.step("last-share-dropped")
				return shwap.RowNamespaceData{Shares: row[from : from+cnt-1], Proof: p}, true
			}
		}
	case 2: // drop a middle share, keep the honest proof
		if cnt >= 3 {
			shs := append(append([]libshare.Share{}, row[from:from+1]...), row[from+2:from+cnt]...)
			f.step("middle-share-dropped")
			return shwap.RowNamespaceData{Shares: shs, Proof: cur.Proof}, true
		}
	case 3: // claim absence for a present namespace using the absence proof of an absent neighbour
		if cnt >= 1 {
			for _, an := range f.a.Absent {
				if o, err := f.honestRND(f.a, an, r); err == nil && len(o.Shares) == 0 && o.Proof != nil {
					f.step("absence-proof-for-present-namespace")
					return shwap.RowNamespaceData{Proof: o.Proof}, true
				}
			}
		}
	case 4: // present the neighbouring namespace's shares and proof
		for _, on := range f.a.Present {
			if on.Equals(ns) {
				continue
			}
			if o, err := f.honestRND(f.a, on, r); err == nil && len(o.Shares) > 0 {
				f.step("neighbour-namespace-data")
				return o, true
			}
		}
	case 5: // pad with one share of the neighbouring namespace, widened proof
		if cnt >= 1 && from+cnt < f.w {
			if p := prove(from, from+cnt+1); p != nil {
				f.step("padded-with-neighbour-share")
				return shwap.RowNamespaceData{Shares: row[from : from+cnt+1], Proof: p}, true
			}
		}
		if cnt >= 1 && from > 0 {
			if p := prove(from-1, from+cnt); p != nil {
				f.step("padded-with-preceding-share")
				return shwap.RowNamespaceData{Shares: row[from-1 : from+cnt], Proof: p}, true
			}
		}
	case 6: // the same namespace's data of another row
		or := (r + 1) % f.w
		if o, err := f.honestRND(f.a, ns, or); err == nil {
			f.step("data-of-other-row")
			return o, true
		}
	case 7: // other square
		if o, err := f.honestRND(f.b, ns, r); err == nil {
			f.step("data-of-other-square")
			return o, true
		}
	case 8: // duplicate a share
		if len(cur.Shares) >= 1 {
			shs := append(append([]libshare.Share{}, cur.Shares...), cur.Shares[len(cur.Shares)-1])
			f.step("share-duplicated")
			return shwap.RowNamespaceData{Shares: shs, Proof: cur.Proof}, true
		}
	case 10: // inject shares under an absence proof
		if len(cur.Shares) == 0 && cur.Proof != nil {
			n := 1 + f.rng.IntN(2)
			shs := append([]libshare.Share{}, row[:min(n, f.w)]...)
			f.step("shares-injected-under-absence-proof")
			return shwap.RowNamespaceData{Shares: shs, Proof: cur.Proof}, true
		}
		if cnt >= 1 {
			for _, an := range f.a.Absent {
				if o, err := f.honestRND(f.a, an, r); err == nil && len(o.Shares) == 0 && o.Proof != nil {
					f.step("absence-proof-with-the-namespace-shares")
					return shwap.RowNamespaceData{Shares: cur.Shares[:1], Proof: o.Proof}, true
				}
			}
		}
	case 9: // reorder
		if len(cur.Shares) >= 2 {
			shs := append([]libshare.Share{}, cur.Shares...)
			shs[0], shs[1] = shs[1], shs[0]
			f.step("shares-reordered")
			return shwap.RowNamespaceData{Shares: shs, Proof: cur.Proof}, true
		}
	}
	return cur, false
}

// fabricatedAbsence builds, for extended row r, a well-formed nmt absence proof whose witness is the
// leaf at index witness (0, or the first parity leaf). nmt accepts such a proof for any namespace that
// sorts below the first leaf resp. above the last data leaf - namespaces the row does not cover.
func (f *vsF) fabricatedAbsence(r, witness int) *nmt.Proof {
	row := f.rowShares(f.a, r)
	tree := wrapper.NewErasuredNamespacedMerkleTree(uint64(f.w), uint(r))
	tree.SetTree(nmt.New(appconsts.NewBaseHashFunc(), nmt.NamespaceIDSize(libshare.NamespaceSize), nmt.IgnoreMaxNamespace(true)))
	for _, sh := range row {
		if err := tree.Push(sh.ToBytes()); err != nil {
			panic(err)
		}
	}
	if _, err := tree.Root(); err != nil {
		panic(err)
	}
	incl, err := tree.ProveRange(witness, witness+1)
	if err != nil {
		panic(err)
	}
	prefix := row[witness].Namespace().Bytes()
	if witness >= f.w {
		prefix = libshare.ParitySharesNamespace.Bytes()
	}
	leaf := append(append([]byte{}, prefix...), row[witness].ToBytes()...)
	lh, err := nmt.NewNmtHasher(sha256.New(), libshare.NamespaceSize, true).HashLeaf(leaf)
	if err != nil {
		panic(err)
	}
	p := nmt.NewAbsenceProof(witness, witness+1, incl.Nodes(), lh, true)
	return &p
}

func (f *vsF) rowND() {
	s := f.s
	nc := f.pickNamespace()
	if s.Chance(1, 5, "fabricated_absence") {
		// an absence proof fabricated for a row whose namespace range does not cover the namespace
		covered := map[int]bool{}
		for _, r := range nc.rows {
			covered[r] = true
		}
		var cand []int
		for r := 0; r < f.w; r++ {
			if !covered[r] {
				cand = append(cand, r)
			}
		}
		if len(cand) == 0 {
			return
		}
		r := cand[s.Choose(len(cand), "row")]
		row := f.rowShares(f.a, r)
		witness := 0
		if bytes.Compare(nc.ns.Bytes(), row[0].Namespace().Bytes()) > 0 {
			witness = f.w
		}
		f.step("absence-proof-fabricated-for-a-row-that-does-not-cover-the-namespace")
		forged := shwap.RowNamespaceData{Proof: f.fabricatedAbsence(r, witness)}
		got := forged
		if s.Chance(1, 2, "over_the_wire") {
			var buf bytes.Buffer
			if _, err := forged.WriteTo(&buf); err != nil {
				return
			}
			got = shwap.RowNamespaceData{}
			if _, err := got.ReadFrom(&buf); err != nil {
				return
			}
		}
		if got.Verify(f.a.Roots, nc.ns, r) == nil {
			s.ViolateP("C02", "c02-forged-answer-accepted", "rownd-absence-outside-range", "a fabricated proof of absence for namespace %x verifies against row %d, whose namespace range does not cover it (namespace present in rows %v); forgery %v", nc.ns.ID(), r, nc.rows, f.log)
		}
		return
	}
	if len(nc.rows) == 0 {
		// outside every row's range: no row may serve a verifying answer for it
		r := f.rng.IntN(2 * f.w)
		for _, on := range f.a.Present {
			if o, err := f.honestRND(f.a, on, r%f.w); err == nil {
				if o.Verify(f.a.Roots, nc.ns, r%f.w) == nil {
					s.ViolateP("C02", "c02-forged-answer-accepted", "rownd-outside-range", "row %d data of another namespace verifies for namespace %x that lies outside the row's range", r%f.w, nc.ns.ID())
				}
			}
		}
		return
	}
	r := nc.rows[s.Choose(len(nc.rows), "row")]
	cur, err := f.honestRND(f.a, nc.ns, r)
	if err != nil {
		s.ViolateP("C02", "c02-honest-answer-rejected", "rownd-build", "building honest row namespace data (row %d) fails: %v", r, err)
		return
	}
	for i, n := 0, s.Choose(3, "forgery_steps"); i < n; i++ {
		cur, _ = f.forgeRND(cur, nc.ns, r)
	}
	var buf bytes.Buffer
	if _, err := cur.WriteTo(&buf); err != nil {
		return
	}
	wire := buf.Bytes()
	if s.Chance(1, 4, "mutate") {
		wire = f.mutate(wire)
	}
	var got shwap.RowNamespaceData
	if _, err := got.ReadFrom(bytes.NewReader(wire)); err != nil {
		if len(f.log) == 0 {
			s.ViolateP("C02", "c02-honest-answer-rejected", "rownd-decode", "honest row namespace data does not survive its codec: %v", err)
		}
		return
	}
	if err := got.Verify(f.a.Roots, nc.ns, r); err != nil {
		if len(f.log) == 0 {
			s.ViolateP("C02", "c02-honest-answer-rejected", "rownd", "honest row namespace data (row %d, %d shares) is rejected: %v", r, len(cur.Shares), err)
		}
		return
	}
	if !vsEq(got.Shares, f.wantRow(nc.ns, r)) {
		s.ViolateP("C02", "c02-forged-answer-accepted", "rownd", "row %d namespace data verifies with %d shares although the row holds %d shares of the namespace (or content/order differs); forgery %v", r, len(got.Shares), len(f.wantRow(nc.ns, r)), f.log)
		if s.Prop == "C01" {
			s.ViolateP("C01", "c01-forged-answer-accepted", "rownd", "row %d namespace data verifies although its shares are not the committed ones; forgery %v", r, f.log)
		}
	}
}

// ---------------------------------------------------------------- namespace data

func (f *vsF) nsData() {
	s := f.s
	nc := f.pickNamespace()
	ctx := context.Background()
	plain := &eds.Rsmt2D{ExtendedDataSquare: f.a.EDS}
	nd, err := eds.NamespaceData(ctx, plain, nc.ns)
	if err != nil {
		s.ViolateP("C02", "c02-honest-answer-rejected", "nd-build", "building honest namespace data fails: %v", err)
		return
	}
	// the second honest producer (cached-proof tree walk) must agree
	cached := eds.WithProofsCache(&eds.Rsmt2D{ExtendedDataSquare: f.a.EDS})
	for _, r := range nc.rows {
		_, _ = cached.AxisHalf(ctx, rsmt2d.Row, r) // warm the cache so that the tree walk is used
	}
	nd2, err2 := eds.NamespaceData(ctx, cached, nc.ns)
	if err2 != nil || nd2.Verify(f.a.Roots, nc.ns) != nil || !vsEq(nd2.Flatten(), nd.Flatten()) {
		s.ViolateP("C02", "c02-producers-disagree", "nd", "the proofs-cache producer yields different or non-verifying namespace data (err=%v, %d vs %d shares)", err2, len(nd2.Flatten()), len(nd.Flatten()))
		return
	}
	cur := append(shwap.NamespaceData{}, nd...)
	for i, n := 0, s.Choose(3, "forgery_steps"); i < n; i++ {
		switch s.Choose(6, "nd_forgery") {
		case 0:
			if len(cur) > 0 {
				j := f.rng.IntN(len(cur))
				cur = append(append(shwap.NamespaceData{}, cur[:j]...), cur[j+1:]...)
				f.step("row-dropped")
			}
		case 1:
			if len(cur) > 0 {
				j := f.rng.IntN(len(cur))
				cur = append(append(append(shwap.NamespaceData{}, cur[:j+1]...), cur[j]), cur[j+1:]...)
				f.step("row-duplicated")
			}
		case 2:
			if len(cur) > 1 {
				cur = append(shwap.NamespaceData{}, cur...)
				cur[0], cur[1] = cur[1], cur[0]
				f.step("rows-reordered")
			}
		case 3, 4:
			if len(cur) > 0 && len(cur) == len(nc.rows) {
				j := f.rng.IntN(len(cur))
				if fr, ok := f.forgeRND(cur[j], nc.ns, nc.rows[j]); ok {
					cur = append(shwap.NamespaceData{}, cur...)
					cur[j] = fr
				}
			}
		case 5:
			// an extra row entry taken from a row outside the namespace's range
			if o, err := f.honestRND(f.a, nc.ns, (len(nc.rows))%f.w); err == nil {
				cur = append(append(shwap.NamespaceData{}, cur...), o)
				f.step("extra-row")
			}
		}
	}
	var buf bytes.Buffer
	if _, err := cur.WriteTo(&buf); err != nil {
		return
	}
	wire := buf.Bytes()
	if s.Chance(1, 4, "mutate") {
		wire = f.mutate(wire)
	}
	got := shwap.NamespaceData{}
	if s.Chance(1, 3, "reused_container") {
		// a getter reuses its response container between attempts: pre-fill it with another answer
		var junk bytes.Buffer
		if o, err := eds.NamespaceData(ctx, &eds.Rsmt2D{ExtendedDataSquare: f.b.EDS}, nc.ns); err == nil {
			_, _ = o.WriteTo(&junk)
			_, _ = got.ReadFrom(&junk)
		}
		s.Probe("reused-container")
	}
	if _, err := got.ReadFrom(bytes.NewReader(wire)); err != nil {
		if len(f.log) == 0 {
			s.ViolateP("C02", "c02-honest-answer-rejected", "nd-decode", "honest namespace data does not survive its codec: %v", err)
		}
		return
	}
	if err := got.Verify(f.a.Roots, nc.ns); err != nil {
		if len(f.log) == 0 {
			s.ViolateP("C02", "c02-honest-answer-rejected", "nd", "honest namespace data (%d rows) is rejected: %v", len(nd), err)
		}
		return
	}
	want := f.a.NamespaceShares(nc.ns)
	if !vsEq(got.Flatten(), want) || len(got) != len(nc.rows) {
		s.ViolateP("C02", "c02-forged-answer-accepted", "nd", "namespace data verifies with %d shares in %d rows although the block holds %d shares of the namespace in rows %v; forgery %v", len(got.Flatten()), len(got), len(want), nc.rows, f.log)
	}
}

// ---------------------------------------------------------------- range

func (f *vsF) rangeData() {
	s, w := f.s, f.w
	from := f.rng.IntN(w * w)
	to := from + 1
	for to < w*w && f.a.Shares[to].Namespace().Equals(f.a.Shares[from].Namespace()) && f.rng.IntN(4) != 0 {
		to++
	}
	fc, _ := shwap.SampleCoordsFrom1DIndex(from, w)
	tc, _ := shwap.SampleCoordsFrom1DIndex(to-1, w)
	rows := func(sq *verifsq.Square, r0, r1 int) [][]libshare.Share {
		var out [][]libshare.Share
		for r := r0; r <= r1; r++ {
			out = append(out, f.rowShares(sq, r))
		}
		return out
	}
	honest, err := shwap.RangeNamespaceDataFromShares(rows(f.a, fc.Row, tc.Row), fc, tc)
	if err != nil {
		s.ViolateP("C01", "c01-honest-answer-rejected", "range-build", "building the honest range [%d,%d) fails: %v", from, to, err)
		return
	}
	cur := honest
	clone := func(x shwap.RangeNamespaceData) shwap.RangeNamespaceData {
		y := shwap.RangeNamespaceData{FirstIncompleteRowProof: x.FirstIncompleteRowProof, LastIncompleteRowProof: x.LastIncompleteRowProof}
		for _, r := range x.Shares {
			y.Shares = append(y.Shares, append([]libshare.Share{}, r...))
		}
		return y
	}
	prove := func(r, a, b int) *nmt.Proof {
		p, err := shwap.GenerateSharesProofs(r, a, b, w, f.rowShares(f.a, r))
		if err != nil {
			return nil
		}
		return p
	}
	nrows := tc.Row - fc.Row + 1
	for i, n := 0, s.Choose(3, "forgery_steps"); i < n; i++ {
		switch s.Choose(11, "range_forgery") {
		case 0: // re-slice: shorten the first row, send the last row complete without proof
			if nrows >= 2 && tc.Col < w-1 {
				k := w - 1 - tc.Col // shares added at the end of the last row
				n0 := (w - fc.Col) - k
				if n0 >= 1 {
					if p := prove(fc.Row, fc.Col, fc.Col+n0); p != nil {
						y := clone(cur)
						all := f.rowShares(f.a, fc.Row)
						y.Shares[0] = all[fc.Col : fc.Col+n0]
						y.FirstIncompleteRowProof = p
						y.Shares[len(y.Shares)-1] = f.rowShares(f.a, tc.Row)[:w]
						y.LastIncompleteRowProof = nil
						cur = y
						f.step("resliced-first-short-last-complete")
					}
				}
			}
		case 1: // re-slice the other way: complete first row without proof, shorter last row
			if nrows >= 2 && fc.Col > 0 {
				n1 := (tc.Col + 1) - fc.Col
				if n1 >= 1 {
					if p := prove(tc.Row, tc.Col+1-n1, tc.Col+1); p != nil {
						y := clone(cur)
						y.Shares[0] = f.rowShares(f.a, fc.Row)[:w]
						y.FirstIncompleteRowProof = nil
						y.Shares[len(y.Shares)-1] = f.rowShares(f.a, tc.Row)[tc.Col+1-n1 : tc.Col+1]
						y.LastIncompleteRowProof = p
						cur = y
						f.step("resliced-first-complete-last-short")
					}
				}
			}
		case 2:
			if cur.FirstIncompleteRowProof != nil {
				y := clone(cur)
				y.FirstIncompleteRowProof = nil
				cur = y
				f.step("first-proof-dropped")
			}
		case 3:
			if cur.LastIncompleteRowProof != nil {
				y := clone(cur)
				y.LastIncompleteRowProof = nil
				cur = y
				f.step("last-proof-dropped")
			}
		case 4:
			y := clone(cur)
			y.FirstIncompleteRowProof, y.LastIncompleteRowProof = cur.LastIncompleteRowProof, cur.FirstIncompleteRowProof
			cur = y
			f.step("proofs-swapped")
		case 5: // shifted by one share (neighbouring range of the same length)
			if to < w*w && f.a.Shares[to].Namespace().Equals(f.a.Shares[from].Namespace()) {
				fc2, _ := shwap.SampleCoordsFrom1DIndex(from+1, w)
				tc2, _ := shwap.SampleCoordsFrom1DIndex(to, w)
				if o, err := shwap.RangeNamespaceDataFromShares(rows(f.a, fc2.Row, tc2.Row), fc2, tc2); err == nil {
					cur = o
					f.step("shifted-range")
				}
			}
		case 6: // rows of the next row range presented for this one
			if tc.Row+1 < w {
				fcn, tcn := shwap.SampleCoords{Row: fc.Row + 1, Col: fc.Col}, shwap.SampleCoords{Row: tc.Row + 1, Col: tc.Col}
				if o, err := shwap.RangeNamespaceDataFromShares(rows(f.a, fcn.Row, tcn.Row), fcn, tcn); err == nil {
					cur = o
					f.step("rows-shifted-down")
				}
			}
		case 7: // same range of the other square
			if o, err := shwap.RangeNamespaceDataFromShares(rows(f.b, fc.Row, tc.Row), fc, tc); err == nil {
				cur = o
				f.step("other-square")
			}
		case 8: // one share spliced from the other square
			y := clone(cur)
			r := f.rng.IntN(len(y.Shares))
			if len(y.Shares[r]) > 0 {
				c := f.rng.IntN(len(y.Shares[r]))
				orow := f.rowShares(f.b, fc.Row+r)
				y.Shares[r][c] = orow[c]
				cur = y
				f.step("one-share-spliced")
			}
		case 9: // widened first proof (proves one share more than are sent)
			if cur.FirstIncompleteRowProof != nil && fc.Col > 0 {
				if p := prove(fc.Row, fc.Col-1, cur.FirstIncompleteRowProof.End()); p != nil {
					y := clone(cur)
					y.FirstIncompleteRowProof = p
					cur = y
					f.step("first-proof-widened")
				}
			}
		case 10: // drop a middle row / duplicate a row
			if len(cur.Shares) >= 3 {
				y := clone(cur)
				y.Shares = append(y.Shares[:1], y.Shares[2:]...)
				cur = y
				f.step("middle-row-dropped")
			}
		}
	}
	var buf bytes.Buffer
	if _, err := cur.WriteTo(&buf); err != nil {
		return
	}
	wire := buf.Bytes()
	if s.Chance(1, 4, "mutate") {
		wire = f.mutate(wire)
	}
	got := shwap.RangeNamespaceData{}
	if s.Chance(1, 3, "reused_container") {
		// pre-fill the container with a multi-row answer, as a getter's earlier attempt would have
		if w >= 2 {
			f0, t0 := shwap.SampleCoords{Row: 0, Col: w - 1}, shwap.SampleCoords{Row: 1, Col: 0}
			if f.a.Shares[w-1].Namespace().Equals(f.a.Shares[w].Namespace()) {
				if o, err := shwap.RangeNamespaceDataFromShares(rows(f.a, 0, 1), f0, t0); err == nil {
					var junk bytes.Buffer
					_, _ = o.WriteTo(&junk)
					_, _ = got.ReadFrom(&junk)
					s.Probe("reused-container")
				}
			}
		}
	}
	if _, err := got.ReadFrom(bytes.NewReader(wire)); err != nil {
		if len(f.log) == 0 {
			s.ViolateP("C01", "c01-honest-answer-rejected", "range-decode", "honest range [%d,%d) does not survive its codec: %v", from, to, err)
		}
		return
	}
	if got.IsEmpty() {
		return
	}
	if err := got.VerifyInclusion(fc, tc, w, f.a.Roots.RowRoots[fc.Row:tc.Row+1]); err != nil {
		if len(f.log) == 1 && (f.log[0] == "resliced-first-short-last-complete" || f.log[0] == "resliced-first-complete-last-short") {
			s.Probe("reslice-rejected")
			s.Note("reslice rejected: %v", err)
		}
		if len(f.log) == 0 {
			s.ViolateP("C01", "c01-honest-answer-rejected", "range", "honest range [%d,%d) of a %dx%d ODS is rejected: %v", from, to, w, w, err)
		}
		return
	}
	if !vsEq(got.Flatten(), f.a.Shares[from:to]) {
		var lens []int
		for _, r := range got.Shares {
			lens = append(lens, len(r))
		}
		s.ViolateP("C01", "c01-forged-answer-accepted", "range", "a response for share range [%d,%d) (rows %d..%d, ODS width %d) verifies although its shares are not the committed shares at that position (row lengths %v, first proof=%v, last proof=%v); forgery %v",
			from, to, fc.Row, tc.Row, w, lens, got.FirstIncompleteRowProof != nil, got.LastIncompleteRowProof != nil, f.log)
	}
}
