package bitswap

// W-NET, bitswap focus: deterministic simulation world for C10 (bitswap blocks
// are accepted only if they verify for the requested identifier) and the
// bitswap part of C06. Real: Fetch, Getter.GetSamples, the registered
// multihash hasher, the unmarshal registry, all *_block.go, CID encoding,
// the serving Blockstore over an accessor getter. Stub: the boxo engine
// (simexchange: wants, sessions, prefix.Sum(data) decoding).

import (
	"bytes"
	"context"
	"errors"
	"fmt"
	mrand "math/rand/v2"
	"os"
	"sort"
	"strings"
	"sync"
	"testing"
	"time"

	"github.com/ipfs/boxo/blockstore"
	"github.com/ipfs/boxo/exchange"
	blocks "github.com/ipfs/go-block-format"
	"github.com/ipfs/go-cid"
	"github.com/ipfs/go-datastore"
	dssync "github.com/ipfs/go-datastore/sync"

	libshare "github.com/celestiaorg/go-square/v4/share"

	"github.com/celestiaorg/celestia-node/internal/verifhdr"
	"github.com/celestiaorg/celestia-node/internal/verifsim"
	"github.com/celestiaorg/celestia-node/internal/verifsq"
	"github.com/celestiaorg/celestia-node/share"
	"github.com/celestiaorg/celestia-node/share/eds"
	"github.com/celestiaorg/celestia-node/share/ipld"
	"github.com/celestiaorg/celestia-node/share/shwap"
	bitswappb "github.com/celestiaorg/celestia-node/share/shwap/p2p/bitswap/pb"
	"github.com/celestiaorg/celestia-node/store"
)

func TestVerifBitswap(t *testing.T) {
	prop := os.Getenv("VERIF_PROP")
	if prop == "" {
		prop = "C10"
	}
	verifsim.Main(t, verifsim.World{
		Prop: prop, Name: "W-NET/bitswap",
		Run: func(s *verifsim.Sim) {
			defer ipld.VerifNewPool()()
			vsBitswapWorld(s)
			s.Finish()
		},
		Real: []string{"bitswap.Fetch / fetch (duplicate path, registry)", "bitswap.Getter.GetSamples", "the registered multihash hasher (verify + populate)", "SampleBlock / RowBlock / RowNamespaceDataBlock / RangeNamespaceDataBlock", "CID <-> ID encoding", "serving bitswap.Blockstore.Get over an accessor getter", "datastore-backed blockstore (light wiring) and EDS-backed bitswap.Blockstore (bridge wiring) as the fetcher's store"},
		Stub: []string{"boxo bitswap engine (simexchange)", "peers (delivery actions of the driver)"},
	})
}

// ------------------------------------------------------------ simexchange

type vsWant struct {
	ch        chan blocks.Block
	remaining map[cid.Cid]bool
	closed    bool
}

type vsExchange struct {
	mu    sync.Mutex
	wants []*vsWant
}

func (e *vsExchange) GetBlock(ctx context.Context, c cid.Cid) (blocks.Block, error) {
	ch, err := e.GetBlocks(ctx, []cid.Cid{c})
	if err != nil {
		return nil, err
	}
	select {
	case b, ok := <-ch:
		if !ok {
			return nil, ctx.Err()
		}
		return b, nil
	case <-ctx.Done():
		return nil, ctx.Err()
	}
}

func (e *vsExchange) GetBlocks(ctx context.Context, cids []cid.Cid) (<-chan blocks.Block, error) {
	w := &vsWant{ch: make(chan blocks.Block, len(cids)+1), remaining: map[cid.Cid]bool{}}
	for _, c := range cids {
		w.remaining[c] = true
	}
	e.mu.Lock()
	e.wants = append(e.wants, w)
	e.mu.Unlock()
	go func() {
		<-ctx.Done()
		e.mu.Lock()
		e.closeLocked(w)
		e.mu.Unlock()
	}()
	return w.ch, nil
}

func (e *vsExchange) closeLocked(w *vsWant) {
	if !w.closed {
		w.closed = true
		close(w.ch)
	}
}

// wanted lists the CIDs some live request still waits for.
func (e *vsExchange) wanted() []cid.Cid {
	e.mu.Lock()
	defer e.mu.Unlock()
	set := map[cid.Cid]bool{}
	for _, w := range e.wants {
		if w.closed {
			continue
		}
		for c := range w.remaining {
			set[c] = true
		}
	}
	out := make([]cid.Cid, 0, len(set))
	for c := range set {
		out = append(out, c)
	}
	sort.Slice(out, func(i, j int) bool { return out[i].KeyString() < out[j].KeyString() })
	return out
}

// Deliver does what the bitswap message decoder does with a (prefix, data) pair received from a
// peer: compute the CID by hashing the data under the prefix - which runs the repository's
// hasher - and hand the block to every session that wants that CID.
func (e *vsExchange) Deliver(prefix cid.Prefix, data []byte) (accepted bool, c cid.Cid, err error) {
	// the registry entry the hasher is about to verify against (it loads it first thing, like here)
	var before any
	if inner, _, perr := unmarshalProto(data); perr == nil {
		before, _ = unmarshalFns.Load(inner)
	}
	c, err = prefix.Sum(data)
	if err != nil {
		return false, cid.Undef, err
	}
	if after, _ := unmarshalFns.Load(c); before != nil && before != after {
		// the verification passed against the entry of a fetch that returned meanwhile (its entry is
		// gone or was replaced by a later fetch's): also seen for fetches the world does not wrap
		vsSlowMu.Lock()
		vsStale[c] = true
		vsSlowMu.Unlock()
	}
	blk, err := blocks.NewBlockWithCid(data, c)
	if err != nil {
		return false, c, err
	}
	e.mu.Lock()
	defer e.mu.Unlock()
	for _, w := range e.wants {
		if w.closed || !w.remaining[c] {
			continue
		}
		delete(w.remaining, c)
		w.ch <- blk
		accepted = true
		if len(w.remaining) == 0 {
			e.closeLocked(w)
		}
	}
	return accepted, c, nil
}

func (e *vsExchange) NotifyNewBlocks(context.Context, ...blocks.Block) error { return nil }
func (e *vsExchange) Close() error                                           { return nil }
func (e *vsExchange) NewSession(context.Context) exchange.Fetcher            { return e }

// ------------------------------------------------------------ world

type vsBSMem struct{ m map[uint64]*verifsq.Square }

func (m vsBSMem) GetByHeight(_ context.Context, h uint64) (eds.AccessorStreamer, error) {
	sq, ok := m.m[h]
	if !ok {
		return nil, store.ErrNotFound
	}
	acc := &eds.Rsmt2D{ExtendedDataSquare: sq.EDS}
	closed := eds.WithClosedOnce(eds.WithProofsCache(acc))
	return eds.AccessorAndStreamer(eds.WithValidation(closed), closed), nil
}
func (m vsBSMem) HasByHeight(_ context.Context, h uint64) (bool, error) {
	_, ok := m.m[h]
	return ok, nil
}

type vsReqBlock struct {
	kind string
	blk  Block
	cid  cid.Cid
	// populated reports whether the container is filled; check compares it with the reference
	populated func() bool
	check     func(sq *verifsq.Square) error
}

func vsNewBlock(rng *mrand.Rand, sq *verifsq.Square, height uint64, kind int) (*vsReqBlock, error) {
	w := sq.ODSW
	size := 2 * w
	switch kind {
	case 0:
		r, c := rng.IntN(size), rng.IntN(size)
		b, err := NewEmptySampleBlock(height, shwap.SampleCoords{Row: r, Col: c}, size)
		if err != nil {
			return nil, err
		}
		return &vsReqBlock{kind: fmt.Sprintf("sample(%d,%d)", r, c), blk: b, cid: b.CID(),
			populated: func() bool { return !b.Container.IsEmpty() },
			check: func(sq *verifsq.Square) error {
				if err := b.Container.Verify(sq.Roots, r, c); err != nil {
					return err
				}
				if !bytes.Equal(b.Container.Share.ToBytes(), sq.EDS.GetCell(uint(r), uint(c))) {
					return errors.New("share is not the committed one")
				}
				return nil
			}}, nil
	case 1:
		r := rng.IntN(size)
		b, err := NewEmptyRowBlock(height, r, size)
		if err != nil {
			return nil, err
		}
		return &vsReqBlock{kind: fmt.Sprintf("row(%d)", r), blk: b, cid: b.CID(),
			populated: func() bool { return !b.Container.IsEmpty() },
			check: func(sq *verifsq.Square) error {
				if err := b.Container.Verify(sq.Roots, r); err != nil {
					return err
				}
				shs, err := b.Container.Shares()
				if err != nil {
					return err
				}
				ref := sq.EDS.Row(uint(r))
				for i := range shs {
					if !bytes.Equal(shs[i].ToBytes(), ref[i]) {
						return fmt.Errorf("share %d is not the committed one", i)
					}
				}
				return nil
			}}, nil
	case 2:
		r := rng.IntN(w)
		ns := sq.Shares[r*w].Namespace()
		b, err := NewEmptyRowNamespaceDataBlock(height, r, ns, size)
		if err != nil {
			return nil, err
		}
		return &vsReqBlock{kind: fmt.Sprintf("rownd(%d,%x)", r, ns.ID()[len(ns.ID())-2:]), blk: b, cid: b.CID(),
			populated: func() bool { return !b.Container.IsEmpty() },
			check: func(sq *verifsq.Square) error {
				if err := b.Container.Verify(sq.Roots, ns, r); err != nil {
					return err
				}
				var want []libshare.Share
				for _, sh := range sq.Shares[r*w : (r+1)*w] {
					if sh.Namespace().Equals(ns) {
						want = append(want, sh)
					}
				}
				if len(want) != len(b.Container.Shares) {
					return fmt.Errorf("%d shares, the row has %d of the namespace", len(b.Container.Shares), len(want))
				}
				for i := range want {
					if !bytes.Equal(want[i].ToBytes(), b.Container.Shares[i].ToBytes()) {
						return fmt.Errorf("share %d differs", i)
					}
				}
				return nil
			}}, nil
	default:
		from := rng.IntN(w * w)
		to := from + 1
		for to < w*w && sq.Shares[to].Namespace().Equals(sq.Shares[from].Namespace()) && rng.IntN(3) != 0 {
			to++
		}
		b, err := NewEmptyRangeNamespaceDataBlock(height, from, to, w)
		if err != nil {
			return nil, err
		}
		return &vsReqBlock{kind: fmt.Sprintf("range(%d,%d)", from, to), blk: b, cid: b.CID(),
			populated: func() bool { return !b.Container.IsEmpty() },
			check: func(sq *verifsq.Square) error {
				got := b.Container.Flatten()
				if len(got) != to-from {
					return fmt.Errorf("%d shares for a range of %d", len(got), to-from)
				}
				for i := range got {
					if !bytes.Equal(got[i].ToBytes(), sq.Shares[from+i].ToBytes()) {
						return fmt.Errorf("share %d is not the committed one", i)
					}
				}
				return nil
			}}, nil
	}
}

func vsBitswapWorld(s *verifsim.Sim) {
	ctx := context.Background()
	// the unmarshal registry is process-global: entries of fetches that an earlier run left pending
	// must not leak into this one
	unmarshalFns.Range(func(k, _ any) bool { unmarshalFns.Delete(k); return true })
	vsSlowMu.Lock()
	clear(vsSlow)
	clear(vsStale)
	clear(vsLive)
	vsSlowMu.Unlock()
	rng := mrand.New(mrand.NewPCG(uint64(s.Choose(1<<16, "data_seed")), 41))
	w := []int{1, 2, 2, 4, 4, 8}[s.Choose(6, "ods_width")]
	sqA := verifsq.Gen(rng, w, -1)
	sqB := verifsq.Gen(rng, w, -1)
	const hA, hB = 9, 10
	serving := &Blockstore{Getter: vsBSMem{map[uint64]*verifsq.Square{hA: sqA, hB: sqB}}}
	servingB := &Blockstore{Getter: vsBSMem{map[uint64]*verifsq.Square{hA: sqB}}} // a node whose height 9 holds another square
	ex := &vsExchange{}
	wiring := s.Choose(3, "fetcher_store")
	var bstore blockstore.Blockstore
	switch wiring {
	case 1:
		bstore = blockstore.NewBlockstore(dssync.MutexWrap(datastore.NewMapDatastore())) // light node wiring
	case 2:
		bstore = &Blockstore{Getter: vsBSMem{map[uint64]*verifsq.Square{}}} // bridge node wiring (EDS store)
	}
	s.Cfg["ods_width"], s.Cfg["fetcher_store"] = w, []string{"none", "datastore blockstore (light)", "EDS-backed blockstore (bridge)"}[wiring]

	// identifiers: round trip and uniqueness
	var pool []*vsReqBlock
	seen := map[string]string{}
	for i, n := 0, s.Range(1, 4, "nblocks"); i < n; i++ {
		kind := s.Choose(4, "block_kind")
		rb, err := vsNewBlock(rng, sqA, hA, kind)
		for tries := 0; err != nil && tries < 20; tries++ {
			rb, err = vsNewBlock(rng, sqA, hA, (kind+tries)%4) // e.g. a row of tail padding has no data namespace
		}
		if err != nil {
			panic(err)
		}
		again, err := EmptyBlock(rb.cid)
		if err != nil || !again.CID().Equals(rb.cid) {
			s.ViolateP("C10", "c10-cid-roundtrip", rb.kind, "identifier %s -> CID %s does not map back to the same CID (err=%v)", rb.kind, rb.cid, err)
			return
		}
		if prev, ok := seen[rb.cid.KeyString()]; ok {
			if prev != rb.kind {
				s.ViolateP("C10", "c10-cid-collision", rb.kind, "identifiers %s and %s share the CID %s", prev, rb.kind, rb.cid)
				return
			}
			continue // the same identifier drawn twice: one request per fetch and identifier
		}
		seen[rb.cid.KeyString()] = rb.kind
		pool = append(pool, rb)
	}
	// the serving side's block for every identifier passes the check when delivered alone (done inside the run below)

	type fetchTask struct {
		name   string
		blks   []*vsReqBlock
		cancel context.CancelFunc
		done   *verifsim.Task
		// returned is set when Fetch has returned (its registry entries are deleted by then)
		returned bool
		roles    map[cid.Cid]string
		err      error
		viaGet   bool
		// sq is the square whose roots this fetch was given (the header it trusts); store the blockstore
		// it was given; srv the serving node whose blocks are honest for that header
		sq    *verifsq.Square
		store blockstore.Blockstore
		srv   *Blockstore
		smps  []shwap.Sample
		coords   []shwap.SampleCoords
	}
	ntasks := s.Range(1, 3, "ntasks")
	var tasks []*fetchTask
	hdr := verifhdr.MakeHeader(hA, time.Now(), sqA.Roots)
	// mixed: one fetch of the run was given another header for the same height (the roots of the
	// other square): its requests have the same CIDs, its verifier accepts other bytes
	mixed := false
	for ti := 0; ti < ntasks; ti++ {
		ft := &fetchTask{name: fmt.Sprintf("fetch%d", ti), roles: map[cid.Cid]string{}, sq: sqA, store: bstore, srv: serving}
		tctx, cancel := context.WithCancel(ctx)
		ft.cancel = cancel
		if s.Chance(1, 4, "via_getter_getsamples") {
			// the real Getter.GetSamples (fresh blocks of its own)
			ft.viaGet = true
			n := s.Range(1, 3, "ncoords")
			for len(ft.coords) < n {
				ft.coords = append(ft.coords, shwap.SampleCoords{Row: rng.IntN(2 * w), Col: rng.IntN(2 * w)})
			}
			g := NewGetter(ex, bstore, 0)
			g.Start()
			ft.done = s.Go(ft.name, func() {
				defer func() {
					if r := recover(); r != nil {
						ft.err = fmt.Errorf("panic: %v", r)
						s.ViolateP("C06", "c06-getter-panics", "bitswap.GetSamples", "bitswap Getter.GetSamples panicked with the %s wiring: %v", s.Cfg["fetcher_store"], r)
					}
				}()
				// the getter's own fetch registers its identifiers too (without the yielding wrapper)
				var mine []cid.Cid
				for _, c := range ft.coords {
					if b, err := NewEmptySampleBlock(hA, c, 2*w); err == nil {
						mine = append(mine, b.CID())
					}
				}
				vsSlowMu.Lock()
				for _, c := range mine {
					vsLive[c]++
				}
				vsSlowMu.Unlock()
				ft.smps, ft.err = g.GetSamples(tctx, hdr, ft.coords)
				vsSlowMu.Lock()
				for _, c := range mine {
					vsLive[c]--
				}
				vsSlowMu.Unlock()
			})
		} else {
			// own copies of the requested blocks (the same CID may be fetched by several tasks)
			for _, rb := range pool {
				if s.Chance(2, 3, "takes_block") || len(ft.blks) == 0 {
					cp, err := vsCloneReq(rb, sqA, hA)
					if err != nil {
						panic(err)
					}
					ft.blks = append(ft.blks, cp)
				}
			}
			if ntasks > 1 && !mixed && s.Chance(1, 6, "fetch_with_another_header") {
				s.Fault("fetch-with-another-header")
				mixed = true
				ft.name += "-other-header"
				ft.sq, ft.srv = sqB, servingB
				ft.store = blockstore.NewBlockstore(dssync.MutexWrap(datastore.NewMapDatastore()))
			}
			ft.done = s.Go(ft.name, func() {
				defer func() {
					if r := recover(); r != nil {
						ft.err = fmt.Errorf("panic: %v", r)
						s.Note("%s: Fetch panicked: %v", ft.name, r)
						s.ViolateP("C06", "c06-getter-panics", "bitswap.Fetch", "bitswap Fetch panicked with the %s wiring: %v", s.Cfg["fetcher_store"], r)
					}
				}()
				bl := make([]Block, len(ft.blks))
				for i, x := range ft.blks {
					// a scheduling point inside fetch's registration loop (between looking a CID up in
					// the registry and registering it), so that concurrent fetches interleave there
					bl[i] = vsYieldingBlock{Block: x.blk, s: s, label: ft.name + " registers " + x.kind, returned: &ft.returned, cid: x.cid, registered: ft.roles}
				}
				ft.err = Fetch(tctx, ex, ft.sq.Roots, bl, WithFetcher(ex.NewSession(tctx)), WithStore(ft.store))
				ft.returned = true
				vsSlowMu.Lock()
				for c := range ft.roles {
					vsLive[c]--
				}
				vsSlowMu.Unlock()
				s.Note("%s: Fetch returned %v", ft.name, ft.err)
			})
		}
		tasks = append(tasks, ft)
	}

	honestBytes := func(c cid.Cid, from *Blockstore) []byte {
		b, err := from.Get(ctx, c)
		if err != nil {
			return nil
		}
		return b.RawData()
	}
	// the hasher takes the entry lock, a scheduling point: deliveries run in tasks
	deliver := func(prefix cid.Prefix, data []byte) (acc bool, got cid.Cid, err error) {
		s.DoSelf("delivery", func() { acc, got, err = ex.Deliver(prefix, data) })
		return acc, got, err
	}
	slowOut := 0
	nSlow := 0
	cancelled := false
	hostileAccepted := 0
	nsteps := s.Range(3, 40, "nsteps")
	for step := 0; step < nsteps && !s.Violated(); step++ {
		ps := s.Settle()
		alts := s.TaskAlts(ps, 10)
		wanted := ex.wanted()
		for _, c := range wanted {
			c := c
			short := c.String()
			short = short[len(short)-6:]
			alts = append(alts, verifsim.Alt{Label: "honest " + short, Weight: 8, Do: func() {
				if data := honestBytes(c, serving); data != nil {
					acc, got, err := deliver(c.Prefix(), data)
					s.Note("honest delivery for %s: accepted=%v cid=%s err=%v", c, acc, got, err)
				}
			}})
			if slowOut < 2 {
				alts = append(alts, verifsim.Alt{Label: "slow delivery " + short, Weight: 3, Do: func() {
					// a copy whose verification takes its time: honest bytes, or the block of the other square
					data := honestBytes(c, serving)
					if s.Chance(1, 2, "slow_copy_is_hostile") {
						s.Fault("delivery-other-square-slow")
						data = honestBytes(c, servingB)
					}
					if data == nil {
						return
					}
					s.Fault("concurrent-delivery")
					slowOut++
					nSlow++
					s.Go(fmt.Sprintf("slow-delivery-%d", nSlow), func() {
						defer func() { slowOut-- }()
						vsSlowMu.Lock()
						vsSlow[verifsim.GoID()] = true
						vsSlowMu.Unlock()
						_, _, _ = ex.Deliver(c.Prefix(), data)
						vsSlowMu.Lock()
						delete(vsSlow, verifsim.GoID())
						vsSlowMu.Unlock()
					})
				}})
			}
			alts = append(alts, verifsim.Alt{Label: "hostile " + short, Weight: 8, Do: func() {
				data := honestBytes(c, serving)
				prefix := c.Prefix()
				kind := s.Choose(8, "hostile_kind")
				names := []string{"other-wanted-id", "other-square", "other-height", "foreign-prefix", "truncated", "mutated", "inner-cid-swapped", "unwanted-id"}
				s.Fault("delivery-" + names[kind])
				switch kind {
				case 0:
					if len(wanted) > 1 {
						o := wanted[(s.Choose(len(wanted), "other")+1)%len(wanted)]
						if !o.Equals(c) {
							data = honestBytes(o, serving)
						}
					}
				case 1:
					data = honestBytes(c, servingB)
				case 2:
					// the same coordinates at another height, re-labelled with the wanted CID in the envelope
					if ob, err := EmptyBlock(c); err == nil {
						_ = ob
					}
					data = vsRelabel(honestBytes(vsAtHeight(c, hB), serving), c)
				case 3:
					switch s.Choose(3, "prefix_field") {
					case 0:
						prefix.Codec ^= 0x10
					case 1:
						prefix.MhType = 0x12 // sha2-256
					case 2:
						prefix.MhLength++
					}
				case 4:
					if len(data) > 2 {
						data = data[:len(data)-1-rng.IntN(len(data)/2)]
					}
				case 5:
					if len(data) > 0 {
						data = append([]byte{}, data...)
						data[rng.IntN(len(data))] ^= byte(1 << rng.IntN(8))
					}
				case 6:
					if len(wanted) > 1 {
						o := wanted[(s.Choose(len(wanted), "other")+1)%len(wanted)]
						data = vsRelabel(data, o)
					}
				case 7:
					if ub, err := vsNewBlock(rng, sqA, hA, s.Choose(4, "block_kind")); err == nil {
						data = honestBytes(ub.cid, serving)
						prefix = ub.cid.Prefix()
					}
				}
				if data == nil {
					return
				}
				ref := honestBytes(c, serving)
				acc, got, _ := deliver(prefix, data)
				if acc && got.Equals(c) && !bytes.Equal(data, ref) {
					hostileAccepted++
					s.Note("exchange accepted non-honest bytes for %s (%s)", c, names[kind])
				}
			}})
		}
		for _, ft := range tasks {
			ft := ft
			if !ft.done.Done() {
				alts = append(alts, verifsim.Alt{Label: "cancel " + ft.name, Weight: 1, Do: func() {
					s.Fault("cancel-fetch")
					cancelled = true
					ft.cancel()
				}})
			}
		}
		if len(alts) == 0 {
			break
		}
		s.Pick("step", alts)
	}
	if s.Violated() {
		return
	}
	// end phase: honest deliveries for everything still wanted, then cancel the rest
	rejectReason := ""
	for i := 0; i < 50; i++ {
		s.Drain(500)
		wanted := ex.wanted()
		if len(wanted) == 0 {
			break
		}
		progress := false
		for _, c := range wanted {
			if data := honestBytes(c, serving); data != nil {
				acc, got, derr := deliver(c.Prefix(), data)
				if !acc && mixed {
					// the identifier may have been registered by the fetch that trusts the other header
					if other := honestBytes(c, servingB); other != nil {
						acc, got, derr = deliver(c.Prefix(), other)
					}
				}
				if acc {
					progress = true
				} else {
					s.Note("end phase: honest block for %s not taken: computed cid %s err=%v", c, got, derr)
					if derr != nil && strings.Contains(derr.Error(), "no unmarshallers registered") {
						rejectReason = "no unmarshaller registered (the fetch that registered the identifier has returned)"
					} else if rejectReason == "" {
						rejectReason = fmt.Sprintf("rejected: %v", derr)
					}
				}
			}
		}
		if !progress {
			break
		}
	}
	s.Drain(500)
	stuck := false
	for _, ft := range tasks {
		if !ft.done.Done() {
			stuck = true
		}
	}
	// (with two headers for one height in the run a fetch may rightly stay unfulfilled: not judged)
	if stuck && !cancelled && !mixed {
		sig := "fetch"
		if strings.HasPrefix(rejectReason, "no unmarshaller registered") {
			sig = "duplicate fetch outlives the registering fetch"
			// ... unless the fetch that is stuck registered the identifier itself and is still running:
			// then somebody else deleted its registration
			wanted := map[cid.Cid]bool{}
			for _, c := range ex.wanted() {
				wanted[c] = true
			}
			for _, ft := range tasks {
				if ft.done.Done() || ft.roles == nil {
					continue
				}
				for c, role := range ft.roles {
					if wanted[c] && role == "original" {
						sig = "a running fetch lost the registration it made"
					}
				}
			}
		}
		s.ViolateP("C10", "c10-honest-delivery-does-not-fulfil", sig, "the honest block of a still wanted identifier is not accepted (%s); pending: %v", rejectReason, ex.wanted())
		return
	}
	for _, ft := range tasks {
		ft.cancel()
	}
	s.Drain(500)
	for _, ft := range tasks {
		if !ft.done.Done() {
			s.ViolateP("C10", "c10-fetch-ignores-cancel", "fetch", "%s did not return after its context was cancelled", ft.name)
			return
		}
	}
	// judge what the fetches left behind
	for _, ft := range tasks {
		if ft.viaGet {
			for i, smp := range ft.smps {
				if smp.IsEmpty() || i >= len(ft.coords) {
					continue
				}
				c := ft.coords[i]
				if err := smp.Verify(sqA.Roots, c.Row, c.Col); err != nil || !bytes.Equal(smp.Share.ToBytes(), sqA.EDS.GetCell(uint(c.Row), uint(c.Col))) {
					s.ViolateP("C06", "c06-unverified-data-returned", "bitswap.GetSamples", "bitswap Getter.GetSamples returned for (%d,%d) a sample that does not verify / is not the committed share (verify err=%v, call err=%v)", c.Row, c.Col, err, ft.err)
					s.ViolateP("C01", "c01-rejected-data-accepted", "bitswap.GetSamples", "bitswap Getter.GetSamples handed back for (%d,%d) a sample that is not the committed share of that position (verify err=%v, call err=%v)", c.Row, c.Col, err, ft.err)
					s.ViolateP("C10", "c10-populated-with-wrong-data", "sample-via-getter", "bitswap Getter.GetSamples returned for (%d,%d) a sample that is not the committed share (verify err=%v)", c.Row, c.Col, err)
					return
				}
			}
			continue
		}
		for _, rb := range ft.blks {
			s.Note("%s: block %s cid=%s populated=%v err=%v", ft.name, rb.kind, rb.cid, rb.populated(), ft.err)
			if !rb.populated() {
				if !cancelled && ft.err == nil {
					vsSlowMu.Lock()
					stale := vsStale[rb.cid]
					vsSlowMu.Unlock()
					if stale {
						s.ViolateP("C10", "c10-fulfilled-but-empty", "delivery verified against the entry of a fetch that had returned", "%s: Fetch returned nil but the block %s is not populated: a copy of the block was still inside the hasher, being checked by the verifier an earlier fetch of the identifier had registered, when that fetch returned and this one registered anew; the copy was then handed to this fetch", ft.name, rb.kind)
						return
					}
					s.ViolateP("C10", "c10-fulfilled-but-empty", vsKindWord(rb.kind), "%s: Fetch returned nil but the block %s is not populated", ft.name, rb.kind)
					s.ViolateP("C06", "c06-success-without-data", "bitswap."+vsKindWord(rb.kind), "%s: bitswap Fetch reported success for %s but handed back an empty container (neither data nor an error)", ft.name, rb.kind)
					return
				}
				continue
			}
			if err := rb.check(ft.sq); err != nil {
				s.ViolateP("C10", "c10-populated-with-wrong-data", vsKindWord(rb.kind), "%s: block %s was populated with data that is not the reference data of its identifier: %v", ft.name, rb.kind, err)
				if vsKindWord(rb.kind) == "rownd" {
					s.ViolateP("C02", "c02-rejected-data-accepted", "bitswap.rownd", "%s: the requested bitswap block %s was left holding namespace data that is not the complete committed data of that namespace and row: %v", ft.name, rb.kind, err)
				} else {
					s.ViolateP("C01", "c01-rejected-data-accepted", "bitswap."+vsKindWord(rb.kind), "%s: the requested bitswap block %s was left holding shares that are not the committed shares of that position: %v", ft.name, rb.kind, err)
				}
				s.ViolateP("C06", "c06-unverified-data-returned", "bitswap."+vsKindWord(rb.kind), "%s: bitswap block %s holds data that does not verify against the header: %v", ft.name, rb.kind, err)
				return
			}
		}
	}
	// what a fetch keeps in the blockstore it was given (WithStore) is verified data of that identifier
	type storeRef struct {
		st  blockstore.Blockstore
		srv *Blockstore
		who string
	}
	var stores []storeRef
	if wiring == 1 {
		stores = append(stores, storeRef{bstore, serving, "the fetches"})
	}
	for _, ft := range tasks {
		if ft.sq == sqB {
			stores = append(stores, storeRef{ft.store, servingB, ft.name})
		}
	}
	for _, sr := range stores {
		for _, rb := range pool {
			blk, err := sr.st.Get(ctx, rb.cid)
			if err != nil {
				continue
			}
			if ref := honestBytes(rb.cid, sr.srv); ref != nil && !bytes.Equal(blk.RawData(), ref) {
				// other bytes than the honest encoding: fine if they decode and verify, for the header of
				// the fetch that stored them, to the committed data of the identifier (an encoding that
				// differs in a bit the decoder ignores is not a forgery)
				sqOfStore := sqA
				if sr.srv == servingB {
					sqOfStore = sqB
				}
				if fresh, cerr := vsCloneReq(rb, sqOfStore, hA); cerr == nil {
					if uerr := unmarshal(fresh.blk.UnmarshalFn(sqOfStore.Roots), blk.RawData()); uerr == nil && fresh.populated() && fresh.check(sqOfStore) == nil {
						s.Probe("stored-block-other-encoding-verifies")
						continue
					}
				}
				vsSlowMu.Lock()
				stale := vsStale[rb.cid]
				vsSlowMu.Unlock()
				if stale && mixed {
					s.ViolateP("C10", "c10-unverified-block-stored", "delivery verified against the entry of a returned fetch that trusted another header", "the blockstore given to %s holds, under the identifier of %s, a block that does not verify for the header that fetch trusts: a copy was inside the hasher, checked by the verifier of a fetch of the same identifier that trusted another header and had returned meanwhile, and was handed to the later fetch, which - being the registrant of its own entry - stored it unchecked", sr.who, rb.kind)
					return
				}
				if stale {
					s.ViolateP("C10", "c10-unverified-block-stored", "delivery verified against the entry of a fetch that had returned", "the blockstore given to Fetch holds, under the identifier of %s, bytes that are not the honest block of that identifier: a hostile copy was inside the hasher, checked by the verifier of a fetch that had returned, and was handed to a later fetch of the identifier, which stored it", rb.kind)
					return
				}
				sig := vsKindWord(rb.kind)
				if mixed {
					sig = "duplicate fetch with another header"
				}
				s.ViolateP("C10", "c10-unverified-block-stored", sig, "the blockstore given to %s holds, under the identifier of %s, bytes that are not the honest block of that identifier for the header they trust (they never verified for the fetch that stored them)", sr.who, rb.kind)
				return
			}
		}
	}
	n := 0
	unmarshalFns.Range(func(_, _ any) bool { n++; return true })
	if n != 0 {
		s.ViolateP("C10", "c10-registry-not-empty", "registry", "%d entries are left in the unmarshal registry after every fetch returned", n)
	}
}

func vsKindWord(k string) string {
	for i, c := range k {
		if c == '(' {
			return k[:i]
		}
	}
	return k
}

// vsCloneReq builds a fresh empty block for the same identifier.
func vsCloneReq(rb *vsReqBlock, sq *verifsq.Square, h uint64) (*vsReqBlock, error) {
	b, err := EmptyBlock(rb.cid)
	if err != nil {
		return nil, err
	}
	cp := &vsReqBlock{kind: rb.kind, blk: b, cid: rb.cid}
	switch x := b.(type) {
	case *SampleBlock:
		r, c := x.ID.RowIndex, x.ID.ShareIndex
		cp.populated = func() bool { return !x.Container.IsEmpty() }
		cp.check = func(sq *verifsq.Square) error {
			if err := x.Container.Verify(sq.Roots, r, c); err != nil {
				return err
			}
			if !bytes.Equal(x.Container.Share.ToBytes(), sq.EDS.GetCell(uint(r), uint(c))) {
				return errors.New("share is not the committed one")
			}
			return nil
		}
	case *RowBlock:
		r := x.ID.RowIndex
		cp.populated = func() bool { return !x.Container.IsEmpty() }
		cp.check = func(sq *verifsq.Square) error {
			if err := x.Container.Verify(sq.Roots, r); err != nil {
				return err
			}
			shs, err := x.Container.Shares()
			if err != nil {
				return err
			}
			ref := sq.EDS.Row(uint(r))
			for i := range shs {
				if !bytes.Equal(shs[i].ToBytes(), ref[i]) {
					return fmt.Errorf("share %d is not the committed one", i)
				}
			}
			return nil
		}
	case *RowNamespaceDataBlock:
		r, ns := x.ID.RowIndex, x.ID.DataNamespace
		cp.populated = func() bool { return !x.Container.IsEmpty() }
		cp.check = func(sq *verifsq.Square) error {
			if err := x.Container.Verify(sq.Roots, ns, r); err != nil {
				return err
			}
			w := sq.ODSW
			n := 0
			for _, sh := range sq.Shares[r*w : (r+1)*w] {
				if sh.Namespace().Equals(ns) {
					if n >= len(x.Container.Shares) || !bytes.Equal(sh.ToBytes(), x.Container.Shares[n].ToBytes()) {
						return fmt.Errorf("share %d of the namespace missing or different", n)
					}
					n++
				}
			}
			if n != len(x.Container.Shares) {
				return fmt.Errorf("%d shares, the row has %d of the namespace", len(x.Container.Shares), n)
			}
			return nil
		}
	case *RangeNamespaceDataBlock:
		from, to := x.ID.From, x.ID.To
		cp.populated = func() bool { return !x.Container.IsEmpty() }
		cp.check = func(sq *verifsq.Square) error {
			got := x.Container.Flatten()
			if len(got) != to-from {
				return fmt.Errorf("%d shares for a range of %d", len(got), to-from)
			}
			for i := range got {
				if !bytes.Equal(got[i].ToBytes(), sq.Shares[from+i].ToBytes()) {
					return fmt.Errorf("share %d is not the committed one", i)
				}
			}
			return nil
		}
	default:
		return nil, fmt.Errorf("unknown block type %T", b)
	}
	return cp, nil
}

// vsAtHeight returns the CID of the same identifier at another height.
func vsAtHeight(c cid.Cid, h uint64) cid.Cid {
	hash := append([]byte{}, c.Hash()...)
	// multihash: 4 bytes prefix, then the identifier, whose first 8 bytes are the height
	for i := 0; i < 8; i++ {
		hash[4+i] = byte(h >> (8 * (7 - i)))
	}
	return cid.NewCidV1(c.Type(), hash)
}

// vsRelabel re-wraps a bitswap envelope so that it claims to be the block of another CID.
func vsRelabel(data []byte, c cid.Cid) []byte {
	if data == nil {
		return nil
	}
	_, container, err := unmarshalProto(data)
	if err != nil {
		return data
	}
	return vsEnvelope(c, container)
}

func vsEnvelope(c cid.Cid, container []byte) []byte {
	blk := bitswappb.Block{Cid: c.Bytes(), Container: container}
	out, err := blk.Marshal()
	if err != nil {
		panic(err)
	}
	return out
}

// vsYieldingBlock makes Block.UnmarshalFn - which fetch calls for every block while it registers
// it - a yield point of the scheduler.
type vsYieldingBlock struct {
	Block
	s        *verifsim.Sim
	label    string
	returned *bool // the fetch that owns this block has returned
	cid      cid.Cid
	// registered, if set, receives the role ("original" / "duplicate") this fetch got for the identifier
	registered map[cid.Cid]string
}

func (b vsYieldingBlock) UnmarshalFn(r *share.AxisRoots) UnmarshalFn {
	b.s.Yield(b.label)
	if b.registered != nil {
		// fetch calls this once per block while it registers it: the first live registrant of an
		// identifier is the one whose verifier the hasher uses (the "original"), later ones are duplicates
		vsSlowMu.Lock()
		if vsLive[b.cid] == 0 {
			b.registered[b.cid] = "original"
		} else if _, ok := b.registered[b.cid]; !ok {
			b.registered[b.cid] = "duplicate"
		}
		vsLive[b.cid]++
		vsSlowMu.Unlock()
	}
	fn := b.Block.UnmarshalFn(r)
	return func(data []byte, id []byte) error {
		// a delivery marked slow parks here, inside the verification and with the entry lock held, so
		// that another copy of the block can arrive meanwhile (bitswap calls the hasher concurrently)
		vsSlowMu.Lock()
		slow := vsSlow[verifsim.GoID()]
		delete(vsSlow, verifsim.GoID())
		vsSlowMu.Unlock()
		if slow {
			b.s.Yield("verifying a delivery for " + b.label)
		}
		err := fn(data, id)
		if err == nil && b.returned != nil && *b.returned {
			// the hasher passed a delivery through the verifier of a fetch that is gone already
			vsSlowMu.Lock()
			vsStale[b.cid] = true
			vsSlowMu.Unlock()
		}
		return err
	}
}

var (
	vsSlowMu sync.Mutex
	vsSlow   = map[uint64]bool{}
	// vsStale: CIDs for which a delivery was accepted by the verifier of a fetch that had returned
	vsStale = map[cid.Cid]bool{}
	// vsLive: fetches that registered the identifier and have not returned
	vsLive = map[cid.Cid]int{}
)
