package pruner

// W-PRUNER: deterministic simulation world for C14 (pruning removes only data
// older than the availability window, and all of it). Real: pruner.Service
// (cycle, finder, checkpoint, on-delete callback). Stub: libhead.Store
// (verifhdr.Chain), pruner.Pruner (recording seam), datastore (SimDS).

import (
	"context"
	"encoding/json"
	"errors"
	"fmt"
	"sort"
	"sync"
	"testing"
	"time"

	"github.com/celestiaorg/celestia-node/header"
	"github.com/celestiaorg/celestia-node/internal/verifhdr"
	"github.com/celestiaorg/celestia-node/internal/verifsim"
)

func TestVerifC14(t *testing.T) {
	verifsim.Main(t, verifsim.World{
		Prop: "C14", Name: "W-PRUNER",
		Run:  func(s *verifsim.Sim) { vsPrunerWorld(s); s.Finish() },
		Real: []string{"pruner.Service (Start, Stop, run/prune cycle, retryFailed, findPruneableHeaders, calculateEstimatedCutoff, checkpoint load/store/reset, pruneOnHeaderDelete, LastPruned, ResetCheckpoint)", "go-datastore namespace wrapper"},
		Stub: []string{"libhead.Store (verifhdr.Chain)", "pruner.Pruner (recording seam with per-call outcomes)", "datastore (verifsim.SimDS)"},
	})
}

type vsPruneCall struct {
	id     int
	gen    int
	height uint64
	resp   chan error
}

type vsPruner struct {
	s       *verifsim.Sim
	mu      sync.Mutex
	chain   *verifhdr.Chain
	window  time.Duration
	gen     int
	pending []*vsPruneCall
	nextID  int
	pruned  map[uint64]bool // heights with a successful Prune (ever)
	auto    int             // 0 manual, 1 always ok, 2 always fail
	calls   int             // calls made in the current auto phase
	maxCall int             // bound for the all-fail phase
	spun    bool
}

type vsPrunerFor struct {
	p   *vsPruner
	gen int
}

func (f vsPrunerFor) Prune(ctx context.Context, eh *header.ExtendedHeader) error {
	p := f.p
	s := p.s
	p.mu.Lock()
	live := f.gen == p.gen
	if live {
		// safety: the block must be older than the window measured from the current head
		head := p.chain.HeaderAt(p.chain.HeadHeight())
		cutoff := head.Time().Add(-p.window)
		if eh.Time().After(cutoff) {
			s.Violate("c14-pruned-inside-window", "Prune", "Prune(height %d) while the head is %d: the block is only %v older than the head, the window is %v",
				eh.Height(), head.Height(), head.Time().Sub(eh.Time()), p.window)
		}
	}
	auto := p.auto
	p.calls++

	if auto == 2 && p.calls > p.maxCall {
		// a cycle that keeps calling Prune without ever waiting for the next tick
		if !p.spun {
			p.spun = true
			s.Violate("c14-cycle-never-ends", "prune-loop", "with every Prune failing the service made %d Prune calls without waiting for the next cycle (bound %d for %d headers): the cycle never terminates", p.calls, p.maxCall, p.chain.HeadHeight())
		}
		p.mu.Unlock()
		<-ctx.Done() // stop the spin
		return ctx.Err()
	}
	p.nextID++
	c := &vsPruneCall{id: p.nextID, gen: f.gen, height: eh.Height(), resp: make(chan error, 1)}
	if auto == 0 || !live {
		p.pending = append(p.pending, c)
	}
	p.mu.Unlock()
	var err error
	switch {
	case !live:
		<-ctx.Done()
		return ctx.Err()
	case auto == 1:
	case auto == 2:
		err = errors.New("verif: prune keeps failing")
	default:
		select {
		case err = <-c.resp:
		case <-ctx.Done():
			p.mu.Lock()
			p.remove(c)
			p.mu.Unlock()
			return ctx.Err()
		}
	}
	if err == nil {
		p.mu.Lock()
		p.pruned[eh.Height()] = true
		p.mu.Unlock()
	}
	return err
}

func (p *vsPruner) remove(c *vsPruneCall) {
	for i, x := range p.pending {
		if x == c {
			p.pending = append(p.pending[:i], p.pending[i+1:]...)
			return
		}
	}
}

func (p *vsPruner) livePending() []*vsPruneCall {
	p.mu.Lock()
	defer p.mu.Unlock()
	var out []*vsPruneCall
	for _, c := range p.pending {
		if c.gen == p.gen {
			out = append(out, c)
		}
	}
	sort.Slice(out, func(i, j int) bool {
		if out[i].height != out[j].height {
			return out[i].height < out[j].height
		}
		return out[i].id < out[j].id
	})
	return out
}

func (p *vsPruner) release(c *vsPruneCall, err error) {
	p.mu.Lock()
	p.remove(c)
	p.mu.Unlock()
	c.resp <- err
}

func vsPrunerWorld(s *verifsim.Sim) {
	oldMax := maxHeadersPerLoop
	defer func() { maxHeadersPerLoop = oldMax }()
	maxHeadersPerLoop = s.Range(2, 8, "batch_limit")
	blockTime := []time.Duration{6 * time.Second, 12 * time.Second, time.Minute}[s.Choose(3, "block_time")]
	window := blockTime * time.Duration(s.Range(3, 20, "window_blocks"))
	cycle := []time.Duration{5 * time.Second, 30 * time.Second, 10 * time.Minute}[s.Choose(3, "prune_cycle")]
	faultFree := s.Chance(1, 8, "fault_free")
	s.Cfg["batch_limit"], s.Cfg["block_time"], s.Cfg["window"], s.Cfg["cycle"], s.Cfg["fault_free"] = maxHeadersPerLoop, blockTime.String(), window.String(), cycle.String(), faultFree

	chain := verifhdr.NewChain()
	chain.RangeHook = nil
	p := &vsPruner{s: s, chain: chain, window: window, pruned: map[uint64]bool{}}
	base := time.Now().Add(-1000 * time.Hour)
	gapMode := s.Choose(4, "gap_mode") // 0 regular, 1 faster than configured, 2 slower, 3 irregular with outages
	nextTime := base
	grow := func(n int) {
		for i := 0; i < n; i++ {
			h := chain.HeadHeight() + 1
			var gap time.Duration
			switch gapMode {
			case 0:
				gap = blockTime
			case 1:
				gap = blockTime / 3
			case 2:
				gap = blockTime * 2
			default:
				gap = []time.Duration{blockTime, blockTime / 4, blockTime * 3, blockTime * 40, time.Second}[s.ChooseW([]int{6, 3, 3, 1, 2}, "gap")]
			}
			if h == 1 {
				gap = 0
			}
			nextTime = nextTime.Add(gap)
			chain.Add(verifhdr.MakeHeader(h, nextTime, nil))
		}
	}
	first := uint64(s.Range(1, 3, "first_height"))
	for h := uint64(1); h < first; h++ {
		nextTime = nextTime.Add(blockTime)
	}
	// the chain starts at `first`
	chain.Add(verifhdr.MakeHeader(first, nextTime, nil))
	grow(s.Range(0, 40, "initial_len"))
	if s.Chance(1, 3, "range_prefix_answers") {
		// go-header allows GetRangeByHeight to return a non-empty contiguous prefix
		chain.RangeHook = func(from, to uint64, n int) int { return 1 + (n-1)/2 }
		s.Cfg["range_prefix"] = true
	}

	// transient failures of header look-ups by height (the next getMiss ones)
	getMiss := 0
	chain.GetHook = func(_ context.Context, h uint64) error {
		if getMiss > 0 {
			getMiss--
			s.Fault("header-lookup-fails")
			return errors.New("verif: header store hiccup")
		}
		return nil
	}
	inst := 0             // bumped whenever the running instance changes or dies; tasks of older instances are not judged
	gracefulDown := false // the instance was stopped, the process (header store included) is still alive
	stoppedAdvance := -1  // the instance number during whose stopped time a tail advance began and is under way
	var startPoint uint64
	chain.AfterDelete = func(h uint64) {
		p.mu.Lock()
		pruned := p.pruned[h]
		p.mu.Unlock()
		if stoppedAdvance == inst && !pruned && h > startPoint {
			s.Violate("c14-header-deleted-unpruned-while-stopped", "on-delete", "the stopped pruner let the header store delete the header of height %d although the block's data was never pruned (nothing can prune it once the header is gone)", h)
		}
	}
	ds := verifsim.NewSimDS()
	var svc *Service
	var handle *verifsim.DSHandle
	var floor, lastSeen uint64
	state := "down"
	noReset := false
	start := func() {
		inst++
		gracefulDown = false
		chain.ClearOnDelete()
		if handle != nil {
			handle.Kill() // the previous process is gone: nothing of it can write any more
		}
		p.mu.Lock()
		p.gen++
		gen := p.gen
		p.mu.Unlock()
		handle = ds.Handle(fmt.Sprintf("pruner%d", gen))
		var err error
		svc, err = NewService(vsPrunerFor{p, gen}, window, chain, handle, blockTime, WithPruneCycle(cycle))
		if err != nil {
			panic(err)
		}
		cur := svc
		// the archival->pruned conversion resets the checkpoint in a start hook, next to Start
		resetMode := 0
		if inst > 1 && !faultFree && !noReset {
			resetMode = s.ChooseW([]int{8, 1, 1}, "reset_checkpoint_at_start")
		}
		reset := func() {
			s.Fault("reset-checkpoint")
			if !s.Do("reset", func() {
				if err := cur.ResetCheckpoint(context.Background()); err != nil {
					panic(err)
				}
			}) {
				panic("ResetCheckpoint did not return")
			}
			floor, lastSeen = 0, 0
		}
		if resetMode == 1 {
			reset()
		}
		if !s.Do("start", func() {
			if err := cur.Start(context.Background()); err != nil {
				panic(err)
			}
		}) {
			panic("pruner Start did not return")
		}
		if resetMode == 2 {
			// after Start the cycle may hold the checkpoint lock: the reset completes whenever it gets it
			s.Fault("reset-checkpoint")
			s.Go("reset", func() {
				// a nil error means the reset value reached the datastore (a dead instance's handle
				// refuses writes), whichever instance is current by then
				if err := cur.ResetCheckpoint(context.Background()); err == nil {
					floor, lastSeen = 0, 0
				}
			})
		}
		state = "running"
	}
	startPoint = chain.TailHeight()
	start()

	durableLast := func() (uint64, bool) {
		v, ok := ds.Snapshot()["/pruner/checkpoint"]
		if !ok {
			return 0, false
		}
		var cp struct {
			Last uint64 `json:"last_pruned_height"`
		}
		if json.Unmarshal([]byte(v), &cp) != nil {
			return 0, false
		}
		return cp.Last, true
	}
	// observed LastPruned values must not decrease within the floor set by the last restart/reset
	observe := func(v uint64, where string) {
		if v < lastSeen || v < floor {
			s.Violate("c14-checkpoint-moved-backwards", where, "LastPruned()=%d after it had been %d (floor since last restart/reset %d)", v, lastSeen, floor)
		}
		if v > lastSeen {
			lastSeen = v
		}
	}
	var stopTask, tailTask, lpTask *verifsim.Task
	tailOutside := func(h uint64) bool {
		hd := chain.HeaderAt(h)
		head := chain.HeaderAt(chain.HeadHeight())
		return hd != nil && !hd.Time().After(head.Time().Add(-window))
	}

	nsteps := s.Range(5, 70, "nsteps")
	for step := 0; step < nsteps && !s.Violated(); step++ {
		ps := s.Settle()
		alts := s.TaskAlts(ps, 8)
		if stopTask != nil && stopTask.Done() {
			stopTask = nil
			state = "down"
			gracefulDown = true
		}
		if chain.HeadHeight() < 80 {
			alts = append(alts, verifsim.Alt{Label: "grow head", Weight: 8, Do: func() { grow(s.Range(1, 6, "grow_by")) }})
		}
		for _, c := range p.livePending() {
			c := c
			alts = append(alts, verifsim.Alt{Label: fmt.Sprintf("prune %d ok", c.height), Weight: 10, Do: func() { p.release(c, nil) }})
			if !faultFree {
				alts = append(alts, verifsim.Alt{Label: fmt.Sprintf("prune %d fails", c.height), Weight: 4, Do: func() {
					s.Fault("prune-fails")
					p.release(c, errors.New("verif: prune failed"))
				}})
			}
		}
		alts = append(alts, s.StallAlt([]time.Duration{time.Millisecond, cycle, cycle + time.Second, 3 * cycle}[s.Choose(4, "stall_len")], 5))
		if state == "running" {
			if lpTask == nil || lpTask.Done() {
				// a LastPruned request is always outstanding; when it gets the lock is the scheduler's choice
				cur, my := svc, inst
				lpTask = s.Go("LastPruned", func() {
					v, err := cur.LastPruned(context.Background())
					if err == nil && my == inst {
						observe(v, "LastPruned")
					}
				})
			}
			if !faultFree {
				th := chain.TailHeight()
				if (tailTask == nil || tailTask.Done()) && th+2 < chain.HeadHeight() && tailOutside(th) {
					alts = append(alts, verifsim.Alt{Label: "advance tail", Weight: 3, Do: func() {
						s.Fault("tail-advance")
						by := uint64(s.Range(1, 3, "tail_by"))
						for by > 1 && !(th+by+1 < chain.HeadHeight() && tailOutside(th+by-1)) {
							by--
						}
						tailTask = s.Go("tail-advance", func() {
							if err := chain.AdvanceTail(context.Background(), th+by); err != nil {
								s.Note("tail advance refused: %v", err)
							}
						})
					}})
				}
				alts = append(alts, verifsim.Alt{Label: "stop", Weight: 1, Do: func() {
					s.Fault("graceful-stop")
					cur := svc
					inst++ // what a stopping instance answers from now on is not judged
					state = "stopping"
					stopTask = s.Go("stop", func() {
						ctx, cancel := context.WithTimeout(context.Background(), time.Minute)
						defer cancel()
						if err := cur.Stop(ctx); err != nil {
							s.Note("Stop: %v", err)
							// a stop that gave up did not persist the checkpoint: what survives is the durable value, as after a crash
							if v, ok := durableLast(); ok {
								floor, lastSeen = v, v
							} else {
								floor, lastSeen = 0, 0
							}
						}
					})
				}})
				alts = append(alts, verifsim.Alt{Label: "crash", Weight: 1, Do: func() {
					s.Fault("crash")
					inst++
					handle.Kill()
					svc.cancel()
					p.mu.Lock()
					p.gen++
					p.mu.Unlock()
					state = "down"
					if v, ok := durableLast(); ok {
						floor, lastSeen = v, v
					} else {
						floor, lastSeen = 0, 0
					}
				}})
			}
		}
		if state == "down" {
			alts = append(alts, verifsim.Alt{Label: "restart", Weight: 12, Do: func() { start() }})
			th := chain.TailHeight()
			if gracefulDown && !faultFree && (tailTask == nil || tailTask.Done()) && th+2 < chain.HeadHeight() && tailOutside(th) {
				// the pruner is stopped, the header syncer of the same process is not yet: it moves its tail
				alts = append(alts, verifsim.Alt{Label: "advance tail while the pruner is stopped", Weight: 4, Do: func() {
					s.Fault("tail-advance-while-stopped")
					my := inst
					tailTask = s.Go("tail-advance", func() {
						stoppedAdvance = my
						defer func() { stoppedAdvance = -1 }()
						if err := chain.AdvanceTail(context.Background(), th+1); err != nil {
							s.Note("tail advance refused: %v", err)
						}
					})
				}})
			}
		}
		if state == "running" && !faultFree && getMiss == 0 {
			alts = append(alts, verifsim.Alt{Label: "header look-ups fail", Weight: 1, Do: func() { getMiss = 1 + s.Choose(2, "failing_lookups") }})
		}
		s.Pick("step", alts)
	}
	if s.Violated() {
		return
	}

	// ---- end phase
	s.Drain(3000)
	for _, c := range p.livePending() {
		p.release(c, nil)
	}
	s.Drain(3000)
	if stopTask != nil {
		for i := 0; i < 5 && !stopTask.Done(); i++ {
			s.Stall(time.Minute)
			s.Drain(3000)
		}
		if !stopTask.Done() {
			s.Violate("c14-stop-hangs", "Stop", "Stop did not return")
			return
		}
		state = "down"
	}
	if state != "running" {
		start()
	}
	grow(s.Range(0, 10, "final_growth"))
	// 1. every Prune fails: each cycle must still terminate
	p.mu.Lock()
	p.auto, p.calls, p.maxCall = 2, 0, 60*(int(chain.HeadHeight())+maxHeadersPerLoop)
	p.mu.Unlock()
	for _, c := range p.livePending() {
		p.release(c, errors.New("verif: prune keeps failing"))
	}
	s.Drain(3000)
	for i := 0; i < 3 && !s.Violated(); i++ {
		s.Stall(cycle + time.Second)
		s.Drain(3000)
		p.mu.Lock()
		p.calls = 0
		p.mu.Unlock()
	}
	if s.Violated() {
		return
	}
	// 2. fault-free continuation: everything older than window + block time gets pruned
	p.mu.Lock()
	p.auto = 1
	getMiss = 0
	p.mu.Unlock()
	for _, c := range p.livePending() {
		p.release(c, nil)
	}
	s.Drain(3000)
	for i := 0; i < 8+int(chain.HeadHeight())/maxHeadersPerLoop; i++ {
		s.Stall(cycle + time.Second)
		s.Drain(3000)
	}
	head := chain.HeaderAt(chain.HeadHeight())
	limit := head.Time().Add(-window - blockTime)
	var missing []uint64
	for h := max(startPoint, chain.TailHeight()) + 1; h <= chain.HeadHeight(); h++ {
		hd := chain.HeaderAt(h)
		if hd != nil && hd.Time().Before(limit) && !p.pruned[h] {
			missing = append(missing, h)
		}
	}
	if len(missing) > 0 {
		s.Violate("c14-old-blocks-never-pruned", "continuation", "after the fault-free continuation heights %v (older than window %v + block time %v behind head %d) were never pruned successfully; start point %d tail %d durable checkpoint %v",
			missing, window, blockTime, head.Height(), startPoint, chain.TailHeight(), ds.Snapshot())
		return
	}
	ok := s.Do("final LastPruned", func() {
		v, err := svc.LastPruned(context.Background())
		if err == nil {
			observe(v, "LastPruned.final")
		}
	})
	if !ok {
		rep, sig := s.BlockedReport()
		s.Violate("c14-lastpruned-blocked", sig, "LastPruned does not return after the continuation: %s", rep)
		return
	}
	// 3. the checkpoint survives a graceful restart
	before := lastSeen
	cur := svc
	if !s.Do("final stop", func() {
		ctx, cancel := context.WithTimeout(context.Background(), time.Minute)
		defer cancel()
		_ = cur.Stop(ctx)
	}) {
		s.Violate("c14-stop-hangs", "Stop", "final Stop did not return")
		return
	}
	noReset = true
	start()
	s.Do("LastPruned after restart", func() {
		v, err := svc.LastPruned(context.Background())
		if err == nil && v < before {
			s.Violate("c14-checkpoint-lost-on-restart", "restart", "LastPruned()=%d after stop+restart, it was %d before the stop", v, before)
		}
	})
	svc.cancel()
}
