package shrex

// W-NET, server focus: deterministic simulation world for C09 (shrex serves
// exactly what is asked and survives anything it is sent). Real: shrex.Server
// with RecoveryMiddleware, status mapping, request registry, shrex.Client,
// all shwap IDs / containers / codecs / Verify, store.Store on a scratch
// directory (or in-memory accessors), eds wrappers. Stub: libp2p host,
// streams, resource scopes (verifnet).

import (
	"bytes"
	"context"
	"encoding/binary"
	"errors"
	"fmt"
	"io"
	mrand "math/rand/v2"
	"os"
	"sync"
	"testing"
	"time"

	libshare "github.com/celestiaorg/go-square/v4/share"
	"github.com/libp2p/go-libp2p/core/network"
	"github.com/libp2p/go-libp2p/core/peer"

	"github.com/celestiaorg/go-libp2p-messenger/serde"

	"github.com/celestiaorg/celestia-node/internal/verifnet"
	"github.com/celestiaorg/celestia-node/internal/verifsim"
	"github.com/celestiaorg/celestia-node/internal/verifsq"
	"github.com/celestiaorg/celestia-node/share/eds"
	"github.com/celestiaorg/celestia-node/share/ipld"
	"github.com/celestiaorg/celestia-node/share/shwap"
	shrexpb "github.com/celestiaorg/celestia-node/share/shwap/p2p/shrex/pb"
	"github.com/celestiaorg/celestia-node/store"
)

func TestVerifC09(t *testing.T) {
	verifsim.Main(t, verifsim.World{
		Prop: "C09", Name: "W-NET/server",
		Run: func(s *verifsim.Sim) {
			dir, err := os.MkdirTemp("", "vshrex-")
			if err != nil {
				panic(err)
			}
			defer os.RemoveAll(dir)
			defer ipld.VerifNewPool()()
			vsServerWorld(s, dir)
			s.Finish()
		},
		Real: []string{"shrex.Server (handlers, RecoveryMiddleware, status mapping, registry, rate limiter)", "shrex.Client", "shwap IDs, containers, wire codecs and Verify methods", "store.Store on a scratch directory / eds accessor wrappers (validation, close-once, proofs cache)"},
		Stub: []string{"libp2p host, connections, streams, resource scopes (verifnet)"},
	})
}

// counting accessor getter
type vsCountingStore struct {
	inner  store.AccessorGetter
	mu     sync.Mutex
	opened int
	closed int
	live   []*vsCountedAcc
	// slow: requests in flight that drew a slow store look-up; while there is one, every look-up is
	// slow (a delay that only the next look-up consumed could be taken by another request's look-up,
	// and the request that drew it would be judged as if its own had been slow)
	slow      int
	slowDelay time.Duration
}

// closeLeftovers closes what the code under test failed to close (after it was judged), so that
// no finalizer of a leaked accessor fires later on a goroutine outside the bubble.
func (c *vsCountingStore) closeLeftovers() {
	c.mu.Lock()
	live := c.live
	c.live = nil
	c.mu.Unlock()
	for _, a := range live {
		_ = a.Close()
	}
}

type vsCountedAcc struct {
	eds.AccessorStreamer
	st   *vsCountingStore
	once sync.Once
}

func (a *vsCountedAcc) Close() error {
	a.once.Do(func() {
		a.st.mu.Lock()
		a.st.closed++
		a.st.mu.Unlock()
	})
	return a.AccessorStreamer.Close()
}

func (c *vsCountingStore) GetByHeight(ctx context.Context, h uint64) (eds.AccessorStreamer, error) {
	c.mu.Lock()
	d := time.Duration(0)
	if c.slow > 0 {
		d = c.slowDelay
	}
	c.mu.Unlock()
	if d > 0 {
		// a slow store look-up (cold disk): longer than the write timeout, shorter than the time a
		// request may take altogether
		select {
		case <-time.After(d):
		case <-ctx.Done():
			return nil, ctx.Err()
		}
	}
	acc, err := c.inner.GetByHeight(ctx, h)
	if err != nil {
		return nil, err
	}
	a := &vsCountedAcc{AccessorStreamer: acc, st: c}
	c.mu.Lock()
	c.opened++
	c.live = append(c.live, a)
	c.mu.Unlock()
	return a, nil
}

func (c *vsCountingStore) HasByHeight(ctx context.Context, h uint64) (bool, error) {
	return c.inner.HasByHeight(ctx, h)
}

type vsMemStore struct{ m map[uint64]*verifsq.Square }

func (m vsMemStore) GetByHeight(_ context.Context, h uint64) (eds.AccessorStreamer, error) {
	sq, ok := m.m[h]
	if !ok {
		return nil, store.ErrNotFound
	}
	acc := &eds.Rsmt2D{ExtendedDataSquare: sq.EDS}
	closed := eds.WithClosedOnce(eds.WithProofsCache(acc))
	return eds.AccessorAndStreamer(eds.WithValidation(closed), closed), nil
}
func (m vsMemStore) HasByHeight(_ context.Context, h uint64) (bool, error) {
	_, ok := m.m[h]
	return ok, nil
}

// request spec
type vsReq struct {
	proto  string // request name
	raw    []byte
	valid  bool // well-formed and in bounds for the stored square
	absent bool // well-formed, height not stored
	random bool // arbitrary bytes: may happen to decode as an ID of some absent height
	desc   string
	height uint64
	// decode verifies an OK payload against the reference
	check func(payload []byte, sq *verifsq.Square) error
}

func vsU16(v int) []byte    { b := make([]byte, 2); binary.BigEndian.PutUint16(b, uint16(v)); return b }
func vsU32(v uint32) []byte { b := make([]byte, 4); binary.BigEndian.PutUint32(b, v); return b }
func vsU64(v uint64) []byte { b := make([]byte, 8); binary.BigEndian.PutUint64(b, v); return b }

func vsGenReq(s *verifsim.Sim, rng *mrand.Rand, heights map[uint64]*verifsq.Square, hs []uint64) vsReq {
	h := hs[rng.IntN(len(hs))]
	sq := heights[h]
	size, w := 2*sq.ODSW, sq.ODSW
	kind := s.Choose(5, "req_kind")
	mode := s.ChooseW([]int{8, 2, 2, 5, 2, 2}, "req_mode") // 0 valid, 1 absent height, 2 zero height, 3 field at/past bound, 4 wrong length / trailing, 5 random bytes
	hb := vsU64(h)
	switch mode {
	case 1:
		hb = vsU64(h + 1000)
	case 2:
		hb = vsU64(0)
	}
	var r vsReq
	r.height = h
	oob := mode == 3
	switch kind {
	case 0: // sample
		row, col := rng.IntN(size), rng.IntN(size)
		if oob {
			switch rng.IntN(4) {
			case 0:
				row = size
			case 1:
				col = size
			case 2:
				row, col = size+rng.IntN(5), size-1
			default:
				row, col = 65535, 65535
			}
		}
		r.proto, r.raw = "sample_v0", append(append(append([]byte{}, hb...), vsU16(row)...), vsU16(col)...)
		r.desc = fmt.Sprintf("sample(h=%d,%d,%d)", h, row, col)
		r.check = func(p []byte, sq *verifsq.Square) error {
			var smp shwap.Sample
			if _, err := smp.ReadFrom(bytes.NewReader(p)); err != nil {
				return fmt.Errorf("decoding: %w", err)
			}
			if err := smp.Verify(sq.Roots, row, col); err != nil {
				return err
			}
			if !bytes.Equal(smp.Share.ToBytes(), sq.EDS.GetCell(uint(row), uint(col))) {
				return errors.New("share differs from the stored square")
			}
			return nil
		}
	case 1: // row
		row := rng.IntN(size)
		if oob {
			row = []int{size, size + 1, 65535}[rng.IntN(3)]
		}
		r.proto, r.raw = "row_v0", append(append([]byte{}, hb...), vsU16(row)...)
		r.desc = fmt.Sprintf("row(h=%d,%d)", h, row)
		r.check = func(p []byte, sq *verifsq.Square) error {
			var rw shwap.Row
			if _, err := rw.ReadFrom(bytes.NewReader(p)); err != nil {
				return fmt.Errorf("decoding: %w", err)
			}
			if err := rw.Verify(sq.Roots, row); err != nil {
				return err
			}
			shs, err := rw.Shares()
			if err != nil {
				return err
			}
			ref := sq.EDS.Row(uint(row))
			for i := range shs {
				if !bytes.Equal(shs[i].ToBytes(), ref[i]) {
					return fmt.Errorf("row share %d differs from the stored square", i)
				}
			}
			return nil
		}
	case 2: // namespace data
		all := append(append([]libshare.Namespace{}, sq.Present...), sq.Absent...)
		ns := all[rng.IntN(len(all))]
		nsb := ns.Bytes()
		if oob {
			switch rng.IntN(3) {
			case 0:
				nsb = libshare.ParitySharesNamespace.Bytes()
			case 1:
				nsb = libshare.TailPaddingNamespace.Bytes()
			default:
				nsb = bytes.Repeat([]byte{0xff}, libshare.NamespaceSize)
			}
		}
		r.proto, r.raw = "nd_v0", append(append([]byte{}, hb...), nsb...)
		r.desc = fmt.Sprintf("nd(h=%d,ns=%x)", h, nsb[len(nsb)-2:])
		r.check = func(p []byte, sq *verifsq.Square) error {
			var nd shwap.NamespaceData
			if _, err := nd.ReadFrom(bytes.NewReader(p)); err != nil {
				return fmt.Errorf("decoding: %w", err)
			}
			if err := nd.Verify(sq.Roots, ns); err != nil {
				return err
			}
			want := sq.NamespaceShares(ns)
			got := nd.Flatten()
			if len(got) != len(want) {
				return fmt.Errorf("%d shares, the block has %d", len(got), len(want))
			}
			for i := range got {
				if !bytes.Equal(got[i].ToBytes(), want[i].ToBytes()) {
					return fmt.Errorf("share %d differs", i)
				}
			}
			return nil
		}
	case 3: // whole square
		r.proto, r.raw = "eds_v0", append([]byte{}, hb...)
		r.desc = fmt.Sprintf("eds(h=%d)", h)
		if oob {
			mode = 0 // EdsID has no further field
			oob = false
		}
		r.check = func(p []byte, sq *verifsq.Square) error {
			got, err := eds.ReadAccessor(context.Background(), bytes.NewReader(p), sq.Roots)
			if err != nil {
				return err
			}
			if !got.ExtendedDataSquare.Equals(sq.EDS) {
				return errors.New("square differs from the stored one")
			}
			return nil
		}
	default: // range within one namespace
		from := rng.IntN(w * w)
		to := from + 1
		for to < w*w && sq.Shares[to].Namespace().Equals(sq.Shares[from].Namespace()) && rng.IntN(3) != 0 {
			to++
		}
		f32, t32 := uint32(from), uint32(to)
		if oob {
			switch rng.IntN(5) {
			case 0:
				f32, t32 = uint32(w*w), uint32(w*w+1)
			case 1:
				f32, t32 = 0, uint32(w*w+1)
			case 2:
				f32, t32 = 0, 0xffffffff
			case 3:
				f32, t32 = 1, 1
			default:
				f32, t32 = 2, 1
			}
		}
		r.proto, r.raw = "rangeNamespaceData_v0", append(append(append([]byte{}, hb...), vsU32(f32)...), vsU32(t32)...)
		r.desc = fmt.Sprintf("range(h=%d,%d,%d)", h, f32, t32)
		r.check = func(p []byte, sq *verifsq.Square) error {
			var rd shwap.RangeNamespaceData
			if _, err := rd.ReadFrom(bytes.NewReader(p)); err != nil {
				return fmt.Errorf("decoding: %w", err)
			}
			fc, _ := shwap.SampleCoordsFrom1DIndex(from, w)
			tc, _ := shwap.SampleCoordsFrom1DIndex(to-1, w)
			if err := rd.VerifyInclusion(fc, tc, w, sq.Roots.RowRoots[fc.Row:tc.Row+1]); err != nil {
				return err
			}
			got := rd.Flatten()
			if len(got) != to-from {
				return fmt.Errorf("%d shares for a range of %d", len(got), to-from)
			}
			for i := range got {
				if !bytes.Equal(got[i].ToBytes(), sq.Shares[from+i].ToBytes()) {
					return fmt.Errorf("share %d differs", i)
				}
			}
			return nil
		}
	}
	r.valid = mode == 0
	r.absent = mode == 1
	switch mode {
	case 4:
		if rng.IntN(2) == 0 && len(r.raw) > 1 {
			r.raw = r.raw[:rng.IntN(len(r.raw))] // truncated
			r.desc += "/truncated"
		} else {
			r.raw = append(r.raw, byte(rng.IntN(256)), byte(rng.IntN(256))) // trailing bytes: ID itself intact
			r.valid = true
			r.desc += "/trailing"
		}
	case 5:
		n := rng.IntN(48)
		r.raw = make([]byte, n)
		for i := range r.raw {
			r.raw[i] = byte(rng.IntN(256))
		}
		r.desc += "/random"
		r.random = true
	}
	return r
}

func vsServerWorld(s *verifsim.Sim, dir string) {
	ctx := context.Background()
	rng := mrand.New(mrand.NewPCG(uint64(s.Choose(1<<16, "data_seed")), 11))
	nblocks := s.Range(1, 3, "nblocks")
	fileBacked := s.Chance(2, 3, "file_backed_store")
	memLimit := []int{0, 0, 1 << 20, 64 << 10}[s.Choose(4, "mem_limit")]
	public := s.Chance(1, 6, "public_addresses")
	s.Cfg["nblocks"], s.Cfg["file_backed"], s.Cfg["mem_limit"], s.Cfg["public_addr"] = nblocks, fileBacked, memLimit, public
	heights := map[uint64]*verifsq.Square{}
	var hs []uint64
	for i := 0; i < nblocks; i++ {
		w := []int{1, 2, 2, 4, 8}[s.Choose(5, "ods_width")]
		sq := verifsq.Gen(rng, w, -1)
		h := uint64(3 + i)
		heights[h] = sq
		hs = append(hs, h)
	}
	var inner store.AccessorGetter = vsMemStore{heights}
	if fileBacked {
		st, err := store.NewStore(&store.Parameters{RecentBlocksCacheSize: s.Range(0, 1, "recent_cache")}, dir)
		if err != nil {
			panic(err)
		}
		for h, sq := range heights {
			if err := st.PutODSQ4(ctx, sq.Roots, h, sq.EDS); err != nil {
				panic(err)
			}
		}
		if s.Chance(1, 2, "reopen_store") {
			st, err = store.NewStore(&store.Parameters{RecentBlocksCacheSize: 1}, dir)
			if err != nil {
				panic(err)
			}
		}
		inner = st
	}
	cst := &vsCountingStore{inner: inner}
	defer cst.closeLeftovers()

	net := verifnet.NewNet()
	net.MemLimit = memLimit
	net.BufSize = []int{64 << 10, 4 << 10, 512}[s.Choose(3, "stream_buf")]
	srvHost := net.NewHost(peer.ID("server"), "/ip4/127.0.0.1/tcp/1")
	caddr := "/ip4/127.0.0.1/tcp/2"
	if public {
		caddr = "/ip4/8.8.4.4/tcp/2"
	}
	cliHost := net.NewHost(peer.ID("client"), caddr)
	sp := DefaultServerParameters()
	sp.WithNetworkID("verif")
	sp.ReadTimeout = 5 * time.Second
	sp.WriteTimeout = 8 * time.Second
	sp.HandleRequestTimeout = 20 * time.Second
	srv, err := NewServer(sp, srvHost, cst)
	if err != nil {
		panic(err)
	}
	if err := srv.Start(ctx); err != nil {
		panic(err)
	}
	cp := DefaultClientParameters()
	cp.WithNetworkID("verif")
	client, err := NewClient(cp, cliHost)
	if err != nil {
		panic(err)
	}
	maxServerTime := sp.ReadTimeout + sp.HandleRequestTimeout + sp.WriteTimeout

	nreq := s.Range(2, 6, "nrequests")
	for i := 0; i < nreq; i++ {
		req := vsGenReq(s, rng, heights, hs)
		viaClient := req.valid && len(req.raw) > 0 && s.Chance(1, 3, "via_real_client") && !bytes.HasSuffix([]byte(req.desc), []byte("/trailing"))
		split := -1
		if len(req.raw) > 1 && s.Chance(1, 3, "split_write") {
			split = 1 + s.Choose(len(req.raw)-1, "split_at")
		}
		stallMid := []time.Duration{0, time.Second, 6 * time.Second}[s.ChooseW([]int{6, 2, 1}, "stall_mid_write")]
		after := s.ChooseW([]int{8, 1, 1, 1}, "after_write") // 0 close write, 1 nothing, 2 reset, 3 full close
		readMode := s.ChooseW([]int{8, 2, 1}, "read_mode")   // 0 at once, 1 slowly, 2 never
		slowLookup := s.Chance(1, 6, "slow_store_lookup")
		name := fmt.Sprintf("req%d", i)
		s.Go(name, func() {
			sq := heights[req.height]
			if viaClient {
				vsViaClient(s, ctx, client, srvHost.ID(), req, sq, name)
				return
			}
			str, err := cliHost.NewStream(ctx, srvHost.ID(), ProtocolID("verif", req.proto))
			if err != nil {
				s.Violate("c09-open-fails", req.proto, "%s: cannot open stream for %s: %v", name, req.desc, err)
				return
			}
			defer str.Reset() //nolint:errcheck
			tOpen := time.Now()
			lookupTakes := time.Duration(0)
			if slowLookup {
				s.Fault("slow-store-lookup")
				lookupTakes = 11 * time.Second
				cst.mu.Lock()
				cst.slow++
				cst.slowDelay = lookupTakes
				cst.mu.Unlock()
				defer func() {
					cst.mu.Lock()
					cst.slow--
					cst.mu.Unlock()
				}()
			}
			if split > 0 {
				_, _ = str.Write(req.raw[:split])
				s.Yield(name + " mid-write")
				if stallMid > 0 {
					s.Fault("client-stalls-mid-request")
					time.Sleep(stallMid)
				}
				_, _ = str.Write(req.raw[split:])
			} else {
				_, _ = str.Write(req.raw)
			}
			s.Yield(name + " written")
			// simulated time the server had to wait for the request (the scheduler may have let time pass)
			lateRequest := time.Since(tOpen) >= sp.ReadTimeout-time.Second
			switch after {
			case 0:
				_ = str.CloseWrite()
			case 1:
				s.Fault("client-never-closes-write")
			case 2:
				s.Fault("client-resets")
				_ = str.Reset()
				return
			case 3:
				s.Fault("client-closes-stream")
				_ = str.Close()
				return
			}
			if readMode == 2 {
				s.Fault("client-never-reads")
				time.Sleep(maxServerTime + time.Second)
				return
			}
			_ = str.SetReadDeadline(time.Now().Add(maxServerTime + 5*time.Second))
			var rd io.Reader = str
			if readMode == 1 {
				s.Fault("client-reads-slowly")
				rd = vsSlowReader{str, 300 * time.Millisecond}
			}
			var resp shrexpb.Response
			_, err = serde.Read(rd, &resp)
			if err != nil {
				// reset / EOF without a status: a refusal
				if req.valid && !lateRequest && after == 0 && !public && memLimit == 0 {
					s.Violate("c09-valid-request-refused", req.proto, "%s: well-formed in-bounds request %s got no status (%v) although nothing was wrong with it", name, req.desc, err)
				}
				s.Probe("refused-by-reset")
				return
			}
			tStatus := time.Since(tOpen)
			payload, rerr := io.ReadAll(rd)
			s.Note("%s: %s: status %v read %v after open, payload %d bytes (err=%v) complete %v after open; lookup takes %v", name, req.desc, resp.Status, tStatus, len(payload), rerr, time.Since(tOpen), lookupTakes)
			// a client that took longer than the server's write timeout to drain the response may see it cut
			slowDrain := readMode != 0 || time.Since(tOpen) >= lookupTakes+sp.WriteTimeout/2
			switch resp.Status {
			case shrexpb.Status_OK:
				if !req.valid {
					s.Violate("c09-bad-request-served", req.proto, "%s: request %s (malformed / out of bounds / absent height) was answered OK with %d payload bytes", name, req.desc, len(payload))
					return
				}
				if slowDrain {
					return // not judged: the server may legitimately have given up writing
				}
				if rerr != nil {
					s.Violate("c09-payload-cut", req.proto, "%s: %s: status OK but the payload stream failed: %v", name, req.desc, rerr)
					return
				}
				if err := req.check(payload, sq); err != nil {
					s.Violate("c09-reply-wrong", req.proto, "%s: %s: status OK but the payload (%d bytes) is not the requested data: %v", name, req.desc, len(payload), err)
				}
				s.Probe("served-ok")
			case shrexpb.Status_NOT_FOUND:
				if !req.absent && !req.random {
					s.Violate("c09-wrong-status", req.proto, "%s: %s answered NOT_FOUND although the height is stored (or the request is malformed)", name, req.desc)
				}
				s.Probe("not-found")
			default:
				if req.valid {
					s.Violate("c09-valid-request-refused", req.proto, "%s: well-formed in-bounds request %s answered with status %v", name, req.desc, resp.Status)
				}
				if req.absent {
					s.Violate("c09-wrong-status", req.proto, "%s: %s for a height the server does not hold answered %v, want NOT_FOUND", name, req.desc, resp.Status)
				}
				s.Probe("error-status")
			}
		})
	}

	for step := 0; step < 600 && !s.Violated(); step++ {
		ps := s.Settle()
		alts := s.TaskAlts(ps, 6)
		if len(alts) == 0 {
			if len(s.Unfinished()) == 0 {
				break
			}
			s.Stall(time.Second)
			continue
		}
		alts = append(alts, s.StallAlt([]time.Duration{time.Millisecond, time.Second, 6 * time.Second}[s.Choose(3, "stall_len")], 1))
		s.Pick("step", alts)
	}
	if s.Violated() {
		return
	}
	// every handler must be done within read + handle + write timeout, whatever the clients did
	s.Drain(2000)
	for i := 0; i < 4; i++ {
		s.Stall(maxServerTime + time.Second)
		s.Drain(2000)
	}
	if un := s.Unfinished(); len(un) > 0 {
		s.Violate("c09-client-stuck", "client", "client tasks %v did not finish", un)
		return
	}
	for _, st := range net.Streams {
		if !st.HandlerDone() {
			s.Violate("c09-handler-wedged", string(st.Protocol()), "a server handler for %s is still running %v after its stream was opened (read+handle+write timeouts are %v)", st.Protocol(), 4*(maxServerTime+time.Second), maxServerTime)
			return
		}
		res, reserves, releases, _ := st.ScopeStats().Snapshot()
		if res != 0 || reserves != releases {
			s.Violate("c09-memory-not-released", string(st.Protocol()), "handler for %s returned with %d bytes still reserved (%d reservations, %d releases)", st.Protocol(), res, reserves, releases)
			return
		}
	}
	cst.mu.Lock()
	opened, closed := cst.opened, cst.closed
	cst.mu.Unlock()
	if opened != closed {
		s.Violate("c09-accessor-not-closed", "store", "the handlers obtained %d accessors from the store but closed %d", opened, closed)
		return
	}
	// the server still serves an honest request
	final := vsReq{}
	for i := 0; i < 50 && !final.valid; i++ {
		final = vsGenReqValid(rng, heights, hs)
	}
	done := s.Go("final", func() { vsViaClient(s, ctx, client, srvHost.ID(), final, heights[final.height], "final") })
	s.Drain(2000)
	for i := 0; i < 3 && !done.Done(); i++ {
		s.Stall(maxServerTime)
		s.Drain(2000)
	}
	if !done.Done() {
		s.Violate("c09-server-dead-after-run", "final", "an honest request after the run gets no answer")
	}
	_ = srv.Stop(ctx)
}

func vsGenReqValid(rng *mrand.Rand, heights map[uint64]*verifsq.Square, hs []uint64) vsReq {
	h := hs[rng.IntN(len(hs))]
	sq := heights[h]
	row, col := rng.IntN(2*sq.ODSW), rng.IntN(2*sq.ODSW)
	return vsReq{proto: "sample_v0", valid: true, height: h, desc: fmt.Sprintf("sample(h=%d,%d,%d)", h, row, col),
		raw: append(append(vsU64(h), vsU16(row)...), vsU16(col)...)}
}

type vsSlowReader struct {
	r io.Reader
	d time.Duration
}

func (v vsSlowReader) Read(p []byte) (int, error) {
	time.Sleep(v.d)
	if len(p) > 256 {
		p = p[:256]
	}
	return v.r.Read(p)
}

// vsViaClient sends a well-formed request through the real client and verifies like a getter does.
func vsViaClient(s *verifsim.Sim, ctx context.Context, c *Client, srv peer.ID, req vsReq, sq *verifsq.Square, name string) {
	ctx, cancel := context.WithTimeout(ctx, 2*time.Minute)
	defer cancel()
	var id request
	for _, mk := range registry {
		x := mk()
		if x.Name() == req.proto {
			id = x
		}
	}
	if id == nil {
		s.Violate("c09-unknown-protocol", req.proto, "no registered request named %s", req.proto)
		return
	}
	if _, err := id.ReadFrom(bytes.NewReader(req.raw)); err != nil {
		s.Violate("c09-valid-id-rejected", req.proto, "%s: decoding a well-formed %s failed: %v", name, req.desc, err)
		return
	}
	buf := &bytes.Buffer{}
	err := c.Get(ctx, id, buf, srv)
	if err != nil {
		var se *network.StreamError
		if errors.As(err, &se) || errors.Is(err, ErrResourceExhausted) {
			s.Probe("client-refused")
			return // resource / rate limit refusal is legitimate
		}
		s.Violate("c09-valid-request-refused", req.proto, "%s: real client: %s failed: %v", name, req.desc, err)
		return
	}
	if req.check != nil {
		if err := req.check(buf.Bytes(), sq); err != nil {
			s.Violate("c09-reply-wrong", req.proto, "%s: real client: %s: payload (%d bytes) is not the requested data: %v", name, req.desc, buf.Len(), err)
		}
	}
	s.Probe("served-ok-via-client")
}
