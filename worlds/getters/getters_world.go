package shrex_getter

// W-NET, getter focus: deterministic simulation world for C06 (getters hand
// back only verified data, even when peers misbehave). Real: shrex_getter.Getter
// and its request loop, shrex.Client, shrex.Server (honest source behind each
// peer), peers.Manager/pool, getters.CascadeGetter, all shwap containers and
// Verify methods. Stub: libp2p host/streams (verifnet); byzantine behaviour is
// a proxy in front of an honest server.

import (
	"bytes"
	"context"
	"encoding/binary"
	"errors"
	"fmt"
	"io"
	mrand "math/rand/v2"
	"os"
	"sort"
	"strings"
	"sync"
	"testing"
	"time"

	"github.com/ipfs/go-datastore"
	dssync "github.com/ipfs/go-datastore/sync"
	"github.com/libp2p/go-libp2p/core/network"
	"github.com/libp2p/go-libp2p/core/peer"
	"github.com/libp2p/go-libp2p/core/protocol"
	"github.com/libp2p/go-libp2p/p2p/net/conngater"

	"github.com/celestiaorg/go-libp2p-messenger/serde"
	libshare "github.com/celestiaorg/go-square/v4/share"
	"github.com/celestiaorg/rsmt2d"

	"github.com/celestiaorg/celestia-node/header"
	"github.com/celestiaorg/celestia-node/internal/verifhdr"
	"github.com/celestiaorg/celestia-node/internal/verifnet"
	"github.com/celestiaorg/celestia-node/internal/verifsim"
	"github.com/celestiaorg/celestia-node/internal/verifsq"
	"github.com/celestiaorg/celestia-node/share/eds"
	"github.com/celestiaorg/celestia-node/share/ipld"
	"github.com/celestiaorg/celestia-node/share/shwap"
	"github.com/celestiaorg/celestia-node/share/shwap/getters"
	"github.com/celestiaorg/celestia-node/share/shwap/p2p/shrex"
	shrexpb "github.com/celestiaorg/celestia-node/share/shwap/p2p/shrex/pb"
	"github.com/celestiaorg/celestia-node/share/shwap/p2p/shrex/peers"
	"github.com/celestiaorg/celestia-node/store"
)

func TestVerifC06(t *testing.T) {
	prop := os.Getenv("VERIF_PROP")
	if prop == "" {
		prop = "C06"
	}
	verifsim.Main(t, verifsim.World{
		Prop: prop, Name: "W-NET/getters",
		Run: func(s *verifsim.Sim) {
			defer ipld.VerifNewPool()()
			vsGetterWorld(s)
			s.Finish()
		},
		Real: []string{"shrex_getter.Getter (all five retrievals, executeRequest loop)", "shrex.Client", "shrex.Server (honest source)", "peers.Manager / pool / timedQueue", "getters.CascadeGetter", "shwap containers, codecs, Verify methods", "eds accessor wrappers"},
		Stub: []string{"libp2p host, streams, scopes (verifnet)", "byzantine peers = proxy in front of an honest server", "local store getter in front of the cascade = in-memory getter that knows nothing (always ErrNotFound)"},
	})
}

type vsMem struct{ m map[uint64]*verifsq.Square }

func (m vsMem) GetByHeight(_ context.Context, h uint64) (eds.AccessorStreamer, error) {
	sq, ok := m.m[h]
	if !ok {
		return nil, store.ErrNotFound
	}
	acc := &eds.Rsmt2D{ExtendedDataSquare: sq.EDS}
	closed := eds.WithClosedOnce(eds.WithProofsCache(acc))
	return eds.AccessorAndStreamer(eds.WithValidation(closed), closed), nil
}
func (m vsMem) HasByHeight(_ context.Context, h uint64) (bool, error) {
	_, ok := m.m[h]
	return ok, nil
}

const (
	bHonest = iota
	bNotFound
	bInternal
	bSilent
	bResetEarly
	bResetMid
	bResourceLimit
	bRateLimit
	bTruncated
	bTrailing
	bGarbled
	bOtherSquare
	bOtherCoords
	bExtraRow
	nBehaviours
)

var vsBehaviourNames = []string{"honest", "not-found", "internal", "silent", "reset-early", "reset-mid-payload", "resource-limit-reset", "rate-limit-reset", "truncated", "trailing-bytes", "garbled", "other-square", "other-coordinates", "extra-row"}

// vsGiveUp makes the caller cancel its call at the instant the k-th complete answer has been written
// to it: the answer is read in full while the request is already abandoned.
type vsGiveUp struct {
	mu     sync.Mutex
	k, n   int
	cancel func()
	fired  bool
}

func (g *vsGiveUp) answered(s *verifsim.Sim) {
	g.mu.Lock()
	g.n++
	hit := g.k > 0 && g.n == g.k && g.cancel != nil
	c := g.cancel
	if hit {
		g.fired = true
	}
	g.mu.Unlock()
	if hit {
		s.Fault("caller-gives-up-as-answer-arrives")
		c()
	}
}

type vsPeer struct {
	giveUp *vsGiveUp
	id     peer.ID
	host   *verifnet.Host
	mu     sync.Mutex
	script []int
	used   int
	served []string
}

func (p *vsPeer) next() int {
	p.mu.Lock()
	defer p.mu.Unlock()
	b := p.script[min(p.used, len(p.script)-1)]
	p.used++
	return b
}

// vsProxy answers one client stream according to the peer's next behaviour,
// using the honest server (and the server of another square) as raw material.
func vsProxy(s *verifsim.Sim, p *vsPeer, self *verifnet.Host, honest, other peer.ID, pid protocol.ID, height uint64, sqW int) network.StreamHandler {
	return func(cs network.Stream) {
		b := p.next()
		p.mu.Lock()
		p.served = append(p.served, vsBehaviourNames[b])
		p.mu.Unlock()
		if b != bHonest {
			s.Fault("peer-" + vsBehaviourNames[b])
		}
		req, err := io.ReadAll(io.LimitReader(cs, 64))
		if err != nil {
			_ = cs.Reset()
			return
		}
		// every exchange takes simulated time: without latency a retry loop against a peer that
		// keeps misbehaving would spin at one instant and its deadline would never arrive
		time.Sleep(300 * time.Millisecond)
		switch b {
		case bSilent:
			time.Sleep(10 * time.Minute)
			_ = cs.Reset()
			return
		case bResetEarly:
			_ = cs.Reset()
			return
		case bResourceLimit:
			_ = cs.ResetWithError(network.StreamResourceLimitExceeded)
			return
		case bRateLimit:
			_ = cs.ResetWithError(network.StreamRateLimited)
			return
		case bNotFound:
			_, _ = serde.Write(cs, &shrexpb.Response{Status: shrexpb.Status_NOT_FOUND})
			_ = cs.Close()
			return
		case bInternal:
			_, _ = serde.Write(cs, &shrexpb.Response{Status: shrexpb.Status_INTERNAL})
			_ = cs.Close()
			return
		}
		src := honest
		if b == bOtherSquare {
			src = other
		}
		if b == bOtherCoords {
			req = vsShiftRequest(req, string(pid), sqW)
		}
		ctx, cancel := context.WithTimeout(context.Background(), time.Minute)
		defer cancel()
		up, err := self.NewStream(ctx, src, pid)
		if err != nil {
			_ = cs.Reset()
			return
		}
		_, _ = up.Write(req)
		_ = up.CloseWrite()
		resp, _ := io.ReadAll(up)
		_ = up.Close()
		switch b {
		case bResetMid:
			k := len(resp) / 2
			_, _ = cs.Write(resp[:k])
			// every second time the first half is on the wire long enough to be read before the reset
			// arrives (a reset discards what is still buffered)
			p.mu.Lock()
			slow := p.used%2 == 1
			p.mu.Unlock()
			if slow {
				time.Sleep(20 * time.Millisecond)
				// ... and a further piece of the payload arrives once the status message has been consumed
				if k2 := k + (len(resp)-k)/2; k2 > k {
					_, _ = cs.Write(resp[k:k2])
					time.Sleep(20 * time.Millisecond)
				}
			}
			_ = cs.Reset()
			return
		case bTruncated:
			k := len(resp) - 1 - len(resp)/3
			if k < 0 {
				k = 0
			}
			resp = resp[:k]
		case bTrailing:
			resp = append(resp, 0x0a, 0x03, 0x01, 0x02, 0x03)
		case bExtraRow:
			// the complete honest answer followed by one more well-formed message: its last
			// length-delimited frame once again (for namespace data: a surplus row)
			resp = vsRepeatLastFrame(resp)
		case bGarbled:
			if len(resp) > 8 {
				i := 4 + (len(resp)-4)*2/3
				resp = append([]byte{}, resp...)
				resp[i] ^= 0x5a
			}
		}
		_, _ = cs.Write(resp)
		_ = cs.Close()
		if p.giveUp != nil {
			p.giveUp.answered(s)
		}
	}
}

// vsRepeatLastFrame appends a copy of the last uvarint-length-delimited frame of a response.
func vsRepeatLastFrame(resp []byte) []byte {
	off, last, n := 0, -1, 0
	for off < len(resp) {
		l, k := binary.Uvarint(resp[off:])
		if k <= 0 || off+k+int(l) > len(resp) {
			break
		}
		last = off
		off += k + int(l)
		n++
	}
	if last < 0 || n < 2 || off != len(resp) {
		return resp // only the status message, or not a sequence of frames (e.g. a raw square)
	}
	return append(append([]byte{}, resp...), resp[last:]...)
}

// vsShiftRequest rewrites a request ID so that it asks for neighbouring data of the same block.
func vsShiftRequest(req []byte, proto string, w int) []byte {
	out := append([]byte{}, req...)
	size := 2 * w
	be16 := func(off int) int { return int(out[off])<<8 | int(out[off+1]) }
	put16 := func(off, v int) { out[off], out[off+1] = byte(v>>8), byte(v) }
	switch {
	case len(out) == 12: // sample: height(8) row(2) col(2)
		put16(10, (be16(10)+1)%size)
	case len(out) == 10: // row
		put16(8, (be16(8)+1)%size)
	case len(out) == 16: // range: from(4) to(4): shift by one share if possible
		from := int(out[8])<<24 | int(out[9])<<16 | int(out[10])<<8 | int(out[11])
		to := int(out[12])<<24 | int(out[13])<<16 | int(out[14])<<8 | int(out[15])
		if to < w*w {
			from, to = from+1, to+1
		} else if from > 0 {
			from, to = from-1, to-1
		}
		out[8], out[9], out[10], out[11] = byte(from>>24), byte(from>>16), byte(from>>8), byte(from)
		out[12], out[13], out[14], out[15] = byte(to>>24), byte(to>>16), byte(to>>8), byte(to)
	case len(out) == 8+libshare.NamespaceSize: // namespace data: ask for the neighbouring namespace id
		out[len(out)-2] ^= 0x06
	}
	return out
}

func vsGetterWorld(s *verifsim.Sim) {
	rng := mrand.New(mrand.NewPCG(uint64(s.Choose(1<<16, "data_seed")), 21))
	w := []int{1, 2, 2, 4, 4, 8}[s.Choose(6, "ods_width")]
	sq := verifsq.Gen(rng, w, -1)
	if sq.Filled == 0 {
		sq = verifsq.Gen(rng, w, w*w)
	}
	sq2 := verifsq.Gen(rng, w, -1) // a different square of the same width
	const height = 9
	npeers := s.Range(1, 4, "npeers")
	scenario := s.ChooseW([]int{4, 3, 2, 1}, "scenario") // 0 arbitrary scripts, 1 eventually honest, 2 everyone says not-found, 3 all honest
	s.Cfg["ods_width"], s.Cfg["npeers"], s.Cfg["scenario"] = w, npeers, []string{"arbitrary", "one-honest-peer", "all-not-found", "all-honest"}[scenario]

	net := verifnet.NewNet()
	// honest sources
	mk := func(id string, sq *verifsq.Square) peer.ID {
		h := net.NewHost(peer.ID(id), "/ip4/127.0.0.1/tcp/9")
		sp := shrex.DefaultServerParameters()
		sp.WithNetworkID("verif")
		srv, err := shrex.NewServer(sp, h, vsMem{map[uint64]*verifsq.Square{height: sq}})
		if err != nil {
			panic(err)
		}
		if err := srv.Start(context.Background()); err != nil {
			panic(err)
		}
		return h.ID()
	}
	honest, other := mk("honest-source", sq), mk("other-square-source", sq2)
	self := net.NewHost(peer.ID("self"), "/ip4/127.0.0.1/tcp/1")

	gater, err := conngater.NewBasicConnectionGater(dssync.MutexWrap(datastore.NewMapDatastore()))
	if err != nil {
		panic(err)
	}
	pparams := peers.DefaultParameters()
	pparams.EnableBlackListing = s.Chance(1, 3, "blacklisting")
	full, err := peers.NewManager(*pparams, self, gater, "full")
	if err != nil {
		panic(err)
	}
	arch, err := peers.NewManager(*pparams, self, gater, "archival")
	if err != nil {
		panic(err)
	}
	protos := []string{"sample_v0", "row_v0", "nd_v0", "eds_v0", "rangeNamespaceData_v0"}
	var ps []*vsPeer
	scripts := map[string][]string{}
	honestIdx := -1
	if scenario == 1 {
		if npeers < 2 {
			npeers = 2
		}
		honestIdx = s.Choose(npeers, "honest_peer")
	}
	for i := 0; i < npeers; i++ {
		p := &vsPeer{id: peer.ID(fmt.Sprintf("peer%d", i))}
		p.host = net.NewHost(p.id, "/ip4/127.0.0.1/tcp/7")
		n := s.Range(1, 6, "script_len")
		for k := 0; k < n; k++ {
			var b int
			switch scenario {
			case 2:
				b = bNotFound
			case 3:
				b = bHonest
			case 1:
				// eventually honest: every misbehaviour answers (silence legitimately eats the deadline)
				b = s.ChooseW([]int{4, 1, 1, 0, 1, 1, 1, 1, 2, 1, 2, 2, 2, 1}, "behaviour")
			default:
				b = s.ChooseW([]int{4, 1, 1, 1, 1, 1, 1, 1, 2, 1, 2, 2, 2, 1}, "behaviour")
			}
			p.script = append(p.script, b)
		}
		if scenario == 1 && i == honestIdx {
			p.script = []int{bHonest} // one peer is honest throughout
		}
		for _, b := range p.script {
			scripts[string(p.id)] = append(scripts[string(p.id)], vsBehaviourNames[b])
		}
		for _, pr := range protos {
			pid := shrex.ProtocolID("verif", pr)
			p.host.SetStreamHandler(pid, vsProxy(s, p, p.host, honest, other, pid, height, w))
		}
		full.UpdateNodePool(p.id, true)
		arch.UpdateNodePool(p.id, true)
		ps = append(ps, p)
	}
	s.Cfg["scripts"] = scripts

	cp := shrex.DefaultClientParameters()
	cp.WithNetworkID("verif")
	client, err := shrex.NewClient(cp, self)
	if err != nil {
		panic(err)
	}
	sg := NewGetter(client, full, arch, 0)
	if err := sg.Start(context.Background()); err != nil {
		panic(err)
	}
	var g shwap.Getter = sg
	wiring := s.Choose(4, "wiring")
	if wiring == 3 && scenario == 2 {
		wiring = 1 // "everyone says not found" is judged on the peers alone
	}
	switch wiring {
	case 1:
		g = getters.NewCascadeGetter([]shwap.Getter{sg})
	case 2:
		g = getters.NewCascadeGetter([]shwap.Getter{vsLocalMiss{}, sg})
	case 3:
		// the light node's cascade: shrex first, a second network getter behind it (here an honest one
		// serving samples from the reference square; other requests it does not support)
		g = getters.NewCascadeGetter([]shwap.Getter{sg, vsBackup{sq: sq}})
	}
	s.Cfg["wiring"] = []string{"shrex", "cascade[shrex]", "cascade[store-miss,shrex]", "cascade[shrex,honest-backup]"}[wiring]
	hdr := verifhdr.MakeHeader(height, time.Now(), sq.Roots)
	deadline := []time.Duration{2 * time.Second, 20 * time.Second, 90 * time.Second, 4 * time.Minute}[s.Choose(4, "deadline")]
	if scenario == 1 || scenario == 3 {
		deadline = 10 * time.Minute // generous: an honest answer must get through
	}
	s.Cfg["deadline"] = deadline.String()
	giveUp := &vsGiveUp{}
	if scenario != 1 && scenario != 3 && s.Chance(1, 4, "caller_gives_up") {
		giveUp.k = 1 + s.Choose(3, "give_up_at_answer")
	}
	for _, p := range ps {
		p.giveUp = giveUp
	}
	call := s.Choose(5, "call")
	size := 2 * w
	var problems []string
	var callErr error
	what := ""
	task := s.Go("call", func() {
		ctx, cancel := context.WithTimeout(context.Background(), deadline)
		defer cancel()
		giveUp.mu.Lock()
		giveUp.cancel = cancel
		giveUp.mu.Unlock()
		defer func() {
			if r := recover(); r != nil {
				s.ViolateP("C06", "c06-getter-panics", what, "%s panicked: %v", what, r)
			}
		}()
		switch call {
		case 0:
			n := s.Range(1, min(8, size*size), "ncoords")
			seen := map[shwap.SampleCoords]bool{}
			var coords []shwap.SampleCoords
			for len(coords) < n {
				c := shwap.SampleCoords{Row: rng.IntN(size), Col: rng.IntN(size)}
				if !seen[c] {
					seen[c] = true
					coords = append(coords, c)
				}
			}
			what = fmt.Sprintf("GetSamples(%v)", coords)
			smps, err := g.GetSamples(ctx, hdr, coords)
			callErr = err
			if err == nil && len(smps) != len(coords) {
				problems = append(problems, fmt.Sprintf("returned %d samples for %d coordinates without error", len(smps), len(coords)))
			}
			for i, smp := range smps {
				if i >= len(coords) || smp.IsEmpty() {
					if err == nil {
						problems = append(problems, fmt.Sprintf("success but sample %d is empty", i))
					}
					continue
				}
				c := coords[i]
				if verr := smp.Verify(sq.Roots, c.Row, c.Col); verr != nil {
					problems = append(problems, fmt.Sprintf("returned sample #%d for (%d,%d) does not verify against the header (%v); call error: %v", i, c.Row, c.Col, verr, err))
				} else if !bytes.Equal(smp.Share.ToBytes(), sq.EDS.GetCell(uint(c.Row), uint(c.Col))) {
					problems = append(problems, fmt.Sprintf("returned sample #%d is not the share at (%d,%d)", i, c.Row, c.Col))
				}
			}
		case 1:
			ri := rng.IntN(size)
			what = fmt.Sprintf("GetRow(%d)", ri)
			row, err := g.GetRow(ctx, hdr, ri)
			callErr = err
			if !row.IsEmpty() {
				if verr := row.Verify(sq.Roots, ri); verr != nil {
					problems = append(problems, fmt.Sprintf("returned row does not verify: %v; call error: %v", verr, err))
				}
			} else if err == nil {
				problems = append(problems, "success with an empty row")
			}
		case 2:
			what = "GetEDS"
			e, err := g.GetEDS(ctx, hdr)
			callErr = err
			if e != nil && !e.Equals(sq.EDS) {
				problems = append(problems, fmt.Sprintf("returned square differs from the committed one; call error: %v", err))
			} else if err == nil && e == nil {
				problems = append(problems, "success with a nil square")
			}
		case 3:
			all := append(append([]libshare.Namespace{}, sq.Present...), sq.Absent...)
			ns := all[rng.IntN(len(all))]
			what = fmt.Sprintf("GetNamespaceData(%x)", ns.ID()[len(ns.ID())-2:])
			nd, err := g.GetNamespaceData(ctx, hdr, ns)
			callErr = err
			if err == nil || len(nd) > 0 {
				if verr := nd.Verify(sq.Roots, ns); verr != nil {
					problems = append(problems, fmt.Sprintf("returned namespace data does not verify: %v; call error: %v", verr, err))
				} else if len(nd.Flatten()) != len(sq.NamespaceShares(ns)) {
					problems = append(problems, fmt.Sprintf("returned %d shares of the namespace, the block has %d", len(nd.Flatten()), len(sq.NamespaceShares(ns))))
				}
			}
		case 4:
			from := rng.IntN(w * w)
			to := from + 1
			for to < w*w && sq.Shares[to].Namespace().Equals(sq.Shares[from].Namespace()) && rng.IntN(3) != 0 {
				to++
			}
			what = fmt.Sprintf("GetRangeNamespaceData(%d,%d)", from, to)
			rd, err := g.GetRangeNamespaceData(ctx, hdr, from, to)
			callErr = err
			if !rd.IsEmpty() {
				fc, _ := shwap.SampleCoordsFrom1DIndex(from, w)
				tc, _ := shwap.SampleCoordsFrom1DIndex(to-1, w)
				if verr := rd.VerifyInclusion(fc, tc, w, sq.Roots.RowRoots[fc.Row:tc.Row+1]); verr != nil {
					problems = append(problems, fmt.Sprintf("returned range data does not verify: %v; call error: %v", verr, err))
				} else {
					got := rd.Flatten()
					for i := range got {
						if from+i >= len(sq.Shares) || !bytes.Equal(got[i].ToBytes(), sq.Shares[from+i].ToBytes()) {
							problems = append(problems, fmt.Sprintf("returned range share %d differs from the committed one", i))
							break
						}
					}
					if len(got) != to-from {
						problems = append(problems, fmt.Sprintf("returned %d shares for a range of %d", len(got), to-from))
					}
				}
			} else if err == nil {
				problems = append(problems, "success with empty range data")
			}
		}
	})
	s.Cfg["call"] = call
	began := time.Now()
	for i := 0; i < 100000 && !task.Done(); i++ {
		ps := s.Settle()
		if alts := s.TaskAlts(ps, 1); len(alts) > 0 {
			s.Pick("step", alts)
			continue
		}
		s.Stall(250 * time.Millisecond)
		if time.Since(began) > deadline+2*time.Minute {
			break
		}
	}
	served := map[string][]string{}
	for _, p := range ps {
		p.mu.Lock()
		served[string(p.id)] = append([]string{}, p.served...)
		p.mu.Unlock()
	}
	keys := make([]string, 0, len(served))
	for k := range served {
		keys = append(keys, k)
	}
	sort.Strings(keys)
	hist := ""
	for _, k := range keys {
		hist += fmt.Sprintf("%s:%v ", k, served[k])
	}
	if !task.Done() {
		s.ViolateP("C06", "c06-call-does-not-return", what, "%s (deadline %v) has not returned %v after its deadline; peers answered %s", what, deadline, 2*time.Minute, hist)
		return
	}
	if len(problems) > 0 {
		if vsWord(what) == "GetNamespaceData" {
			s.ViolateP("C02", "c02-rejected-data-accepted", vsWord(what), "%s via %s handed back namespace data that is not the complete committed data: %s; peers answered %s", what, s.Cfg["wiring"], problems[0], hist)
		} else {
			s.ViolateP("C01", "c01-rejected-data-accepted", vsWord(what), "%s via %s handed back shares that are not the committed shares of the requested position: %s; peers answered %s", what, s.Cfg["wiring"], problems[0], hist)
		}
		s.ViolateP("C06", "c06-unverified-data-returned", vsWord(what), "%s via %s: %s; peers answered %s", what, s.Cfg["wiring"], problems[0], hist)
		return
	}
	switch scenario {
	case 1, 3:
		if callErr != nil {
			s.ViolateP("C06", "c06-honest-answer-not-accepted", vsWord(what), "%s via %s failed with %s although an honest peer was available throughout (scenario %v) and the deadline is %v; peers answered %s", what, s.Cfg["wiring"], vsShort(callErr), s.Cfg["scenario"], deadline, hist)
		}
	case 2:
		total := 0
		for _, p := range ps {
			total += len(served[string(p.id)])
		}
		switch {
		case total == 0:
			// nothing had to be fetched (e.g. a namespace outside every row's range)
		case callErr == nil:
			s.ViolateP("C06", "c06-not-found-reported-as-success", vsWord(what), "%s succeeded although every peer answered NOT_FOUND; peers answered %s", what, hist)
		case errors.Is(callErr, shrex.ErrInvalidResponse) || errors.Is(callErr, shwap.ErrFailedVerification):
			s.ViolateP("C06", "c06-not-found-reported-as-corruption", vsWord(what), "%s via %s: every peer answered NOT_FOUND but the error classifies the response as invalid: %v", what, s.Cfg["wiring"], callErr)
		case !errors.Is(callErr, shwap.ErrNotFound) && !errors.Is(callErr, context.DeadlineExceeded) && !errors.Is(callErr, context.Canceled):
			s.ViolateP("C06", "c06-not-found-misreported", vsWord(what), "%s via %s: every peer answered NOT_FOUND, the call returned before its deadline, but the error is not ErrNotFound: %v", what, s.Cfg["wiring"], callErr)
		}
	}
	_ = sg.Stop(context.Background())
}

// vsBackup is an honest second getter of a cascade: samples come from the reference square through the
// real accessor; everything else is not supported (the cascade moves on).
type vsBackup struct{ sq *verifsq.Square }

func (b vsBackup) GetSamples(ctx context.Context, _ *header.ExtendedHeader, idxs []shwap.SampleCoords) ([]shwap.Sample, error) {
	acc := &eds.Rsmt2D{ExtendedDataSquare: b.sq.EDS}
	out := make([]shwap.Sample, len(idxs))
	for i, ix := range idxs {
		smp, err := acc.Sample(ctx, ix)
		if err != nil {
			return out, err
		}
		out[i] = smp
	}
	return out, nil
}
func (vsBackup) GetEDS(context.Context, *header.ExtendedHeader) (*rsmt2d.ExtendedDataSquare, error) {
	return nil, shwap.ErrOperationNotSupported
}
func (vsBackup) GetRow(context.Context, *header.ExtendedHeader, int) (shwap.Row, error) {
	return shwap.Row{}, shwap.ErrOperationNotSupported
}
func (vsBackup) GetNamespaceData(context.Context, *header.ExtendedHeader, libshare.Namespace) (shwap.NamespaceData, error) {
	return nil, shwap.ErrOperationNotSupported
}
func (vsBackup) GetRangeNamespaceData(context.Context, *header.ExtendedHeader, int, int) (shwap.RangeNamespaceData, error) {
	return shwap.RangeNamespaceData{}, shwap.ErrOperationNotSupported
}

type vsLocalMiss struct{}

func (vsLocalMiss) GetSamples(context.Context, *header.ExtendedHeader, []shwap.SampleCoords) ([]shwap.Sample, error) {
	return nil, shwap.ErrNotFound
}
func (vsLocalMiss) GetEDS(context.Context, *header.ExtendedHeader) (*rsmt2d.ExtendedDataSquare, error) {
	return nil, shwap.ErrNotFound
}
func (vsLocalMiss) GetRow(context.Context, *header.ExtendedHeader, int) (shwap.Row, error) {
	return shwap.Row{}, shwap.ErrNotFound
}
func (vsLocalMiss) GetNamespaceData(context.Context, *header.ExtendedHeader, libshare.Namespace) (shwap.NamespaceData, error) {
	return nil, shwap.ErrNotFound
}
func (vsLocalMiss) GetRangeNamespaceData(context.Context, *header.ExtendedHeader, int, int) (shwap.RangeNamespaceData, error) {
	return shwap.RangeNamespaceData{}, shwap.ErrNotFound
}

func vsShort(err error) string {
	if err == nil {
		return "<nil>"
	}
	x := strings.ReplaceAll(err.Error(), "\n", " | ")
	if len(x) > 300 {
		x = x[:300] + "..."
	}
	return x
}

func vsWord(x string) string {
	for i, c := range x {
		if c == '(' {
			return x[:i]
		}
	}
	return x
}
