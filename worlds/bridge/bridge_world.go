package core

// W-BRIDGE: deterministic simulation world for C15 (a bridge node stores
// exactly the block it announces or was asked to keep). Real: core.Listener
// (Start, listen, handleNewBlockEvent, handleNewSignedBlock, storeEDS),
// core.MultiSource, da.ConstructEDS, header.MakeExtendedHeader, store.Store on
// a scratch directory, full.ShareAvailability.SharesAvailable. Stub:
// blockSource endpoints, broadcasters, shwap.Getter for the availability path.

import (
	"bytes"
	"context"
	"errors"
	"fmt"
	"io"
	mrand "math/rand/v2"
	"os"
	"sort"
	"sync"
	"testing"
	"time"

	"github.com/cometbft/cometbft/crypto/ed25519"
	"github.com/cometbft/cometbft/crypto/tmhash"
	"github.com/cometbft/cometbft/proto/tendermint/p2p"
	tmproto "github.com/cometbft/cometbft/proto/tendermint/types"
	cmtversion "github.com/cometbft/cometbft/proto/tendermint/version"
	coregrpc "github.com/cometbft/cometbft/rpc/grpc"
	"github.com/cometbft/cometbft/types"
	"github.com/cometbft/cometbft/version"
	"github.com/gogo/protobuf/proto"
	pubsub "github.com/libp2p/go-libp2p-pubsub"
	"google.golang.org/grpc"

	"github.com/celestiaorg/celestia-app/v9/pkg/appconsts"
	"github.com/celestiaorg/celestia-app/v9/pkg/da"
	libhead "github.com/celestiaorg/go-header"
	libshare "github.com/celestiaorg/go-square/v4/share"
	"github.com/celestiaorg/rsmt2d"

	"github.com/celestiaorg/celestia-node/header"
	"github.com/celestiaorg/celestia-node/internal/verifsim"
	"github.com/celestiaorg/celestia-node/share"
	"github.com/celestiaorg/celestia-node/share/availability/full"
	"github.com/celestiaorg/celestia-node/share/eds/byzantine"
	"github.com/celestiaorg/celestia-node/share/ipld"
	"github.com/celestiaorg/celestia-node/share/shwap"
	"github.com/celestiaorg/celestia-node/share/shwap/p2p/shrex/shrexsub"
	"github.com/celestiaorg/celestia-node/store"
)

func TestVerifC15(t *testing.T) {
	verifsim.Main(t, verifsim.World{
		Prop: "C15", Name: "W-BRIDGE",
		Run: func(s *verifsim.Sim) {
			dir, err := os.MkdirTemp("", "vbridge-")
			if err != nil {
				panic(err)
			}
			defer os.RemoveAll(dir)
			defer verifsim.InstallFS(nil)
			defer ipld.VerifNewPool()()
			if s.ChooseW([]int{3, 1}, "path") == 0 {
				vsListenerWorld(s, dir)
			} else {
				vsAvailabilityWorld(s, dir)
			}
			s.Finish()
		},
		Real: []string{"core.Listener (Start, Stop, listen, handleNewBlockEvent, handleNewSignedBlock)", "core.storeEDS", "core.MultiSource", "core.BlockFetcher (subscription loop, block part assembly, status)", "core.Exchange (GetByHeight, Get, getRangeByHeight)", "da.ConstructEDS", "header.MakeExtendedHeader", "store.Store on a scratch directory", "full.ShareAvailability.SharesAvailable", "availability.IsWithinWindow"},
		Stub: []string{"consensus endpoints (the gRPC BlockAPIClient below core.BlockFetcher: block part streams, commit, validator set, status, new-height subscription)", "header broadcaster and shrex-sub hash broadcaster (recorders)", "shwap.Getter of the availability path", "consensus itself: generated unsigned blocks whose data hash is the DAH of their constructed square"},
	})
}

const vsChainID = "verif-chain"

type vsBlk struct {
	sb     *SignedBlock
	eds    *rsmt2d.ExtendedDataSquare
	dah    da.DataAvailabilityHeader
	parts  []*tmproto.Part
	inside bool // timestamp inside the availability window (incl. slightly ahead of the clock)
}

func vsValidators() *types.ValidatorSet {
	pk := ed25519.GenPrivKeyFromSecret([]byte("verif-validator"))
	return types.NewValidatorSet([]*types.Validator{types.NewValidator(pk.PubKey(), 10)})
}

// vsMakeBlock builds the block of height h; same != nil makes it carry the transactions of that
// earlier block (two heights with one square).
func vsMakeBlock(rng *mrand.Rand, h int64, t time.Time, vals *types.ValidatorSet, same *vsBlk) *vsBlk {
	var txs types.Txs
	kind := rng.IntN(10)
	if same != nil {
		txs, kind = same.sb.Data.Txs, -1
	}
	switch kind {
	case -1:
	case 0, 1: // empty block
	case 2, 3:
		txs = append(txs, vsBytes(rng, 20+rng.IntN(200)))
	case 4: // a block larger than one block part (64 KiB)
		for i, n := 0, 8+rng.IntN(4); i < n; i++ {
			txs = append(txs, vsBytes(rng, 8000+rng.IntN(2000)))
		}
	default:
		for i, n := 0, 1+rng.IntN(6); i < n; i++ {
			txs = append(txs, vsBytes(rng, 50+rng.IntN(1500)))
		}
	}
	sq, err := da.ConstructEDS(txs.ToSliceOfBytes(), appconsts.Version, -1)
	if err != nil {
		panic(err)
	}
	dah, err := da.NewDataAvailabilityHeader(sq)
	if err != nil {
		panic(err)
	}
	lastCommit := &types.Commit{}
	hd := &types.Header{
		Version: cmtversion.Consensus{Block: version.BlockProtocol, App: appconsts.Version},
		ChainID: vsChainID, Height: h, Time: t, DataHash: dah.Hash(),
		LastCommitHash: lastCommit.Hash(), EvidenceHash: (&types.EvidenceData{}).Hash(),
		ValidatorsHash: vals.Hash(), NextValidatorsHash: vals.Hash(), ConsensusHash: tmhash.Sum([]byte("consensus")),
		ProposerAddress: vals.Validators[0].Address,
	}
	commit := &types.Commit{Height: h, BlockID: types.BlockID{Hash: hd.Hash(), PartSetHeader: types.PartSetHeader{Total: 1, Hash: tmhash.Sum([]byte("parts"))}},
		Signatures: []types.CommitSig{{BlockIDFlag: types.BlockIDFlagCommit, ValidatorAddress: vals.Validators[0].Address, Timestamp: t, Signature: make([]byte, 64)}}}
	// the block as the consensus node streams it: proto bytes cut into parts
	pb := &tmproto.Block{Header: *hd.ToProto(), Data: tmproto.Data{Txs: txs.ToSliceOfBytes(), SquareSize: uint64(len(dah.RowRoots) / 2), Hash: dah.Hash()}, LastCommit: lastCommit.ToProto()}
	bz, err := proto.Marshal(pb)
	if err != nil {
		panic(err)
	}
	var parts []*tmproto.Part
	for i := 0; i*int(types.BlockPartSizeBytes) < len(bz); i++ {
		end := min((i+1)*int(types.BlockPartSizeBytes), len(bz))
		parts = append(parts, &tmproto.Part{Index: uint32(i), Bytes: bz[i*int(types.BlockPartSizeBytes) : end]})
	}
	return &vsBlk{
		sb:  &SignedBlock{Header: hd, Commit: commit, Data: &types.Data{Txs: txs}, ValidatorSet: vals},
		eds: sq, dah: dah, parts: parts,
	}
}

func vsBytes(rng *mrand.Rand, n int) []byte {
	b := make([]byte, n)
	for i := range b {
		b[i] = byte(rng.IntN(256))
	}
	return b
}

// ---- consensus endpoint stub: the gRPC client seam below the real BlockFetcher

type vsFetchCall struct {
	src    string
	height int64
	kind   string // "fetch", "fetch-by-hash", "info" or "syncing"
	resp   chan int
}

type vsEndpoint struct {
	w       *vsBridge
	addr    string
	heights chan int64 // announcements; -1 breaks the current subscription stream
	syncing bool
	network string
	statusN int
	coregrpc.BlockAPIClient
}

type vsBridge struct {
	s               *verifsim.Sim
	mu              sync.Mutex
	blocks          map[int64]*vsBlk
	byHash          map[string]*vsBlk
	pending         []*vsFetchCall
	fetchedOK       map[int64]bool // every part of the height was delivered to a fetch at least once
	fetchFailed     map[int64]int  // fetch / commit queries of the height that ended in failure (error, broken stream, timeout)
	published       []uint64
	pubDAH          map[uint64][]byte
	hashes          []uint64
	st              *store.Store
	storedAtPublish map[uint64]bool
	dropped         map[string]bool // endpoints the chain-id verification must drop
	usedDropped     string
	ctl             *verifsim.FSControl
	exTouched       map[int64]bool // heights an Exchange request covered (they may be stored without the listener publishing them)
	vals            *types.ValidatorSet
}

func (v *vsEndpoint) wait(ctx context.Context, kind string, h int64) (int, error) {
	v.w.mu.Lock()
	if v.w.dropped[v.addr] && v.w.usedDropped == "" {
		v.w.usedDropped = fmt.Sprintf("%s of height %d from %s", kind, h, v.addr)
	}
	c := &vsFetchCall{src: v.addr, height: h, kind: kind, resp: make(chan int, 1)}
	v.w.pending = append(v.w.pending, c)
	v.w.mu.Unlock()
	select {
	case r := <-c.resp:
		return r, nil
	case <-ctx.Done():
		v.w.mu.Lock()
		for i, p := range v.w.pending {
			if p == c {
				v.w.pending = append(v.w.pending[:i], v.w.pending[i+1:]...)
				break
			}
		}
		v.w.fetchFailed[h]++
		v.w.mu.Unlock()
		return 0, ctx.Err()
	}
}

// vsStream serves a prepared list of responses; failAt >= 0 breaks the stream before that response.
type vsStream struct {
	grpc.ClientStream
	parts  []*tmproto.Part
	b      *vsBlk
	w      *vsBridge
	i      int
	failAt int
}

func (st *vsStream) next() (*tmproto.Part, bool, error) {
	if st.i == st.failAt {
		return nil, false, errors.New("verif: block stream broke")
	}
	if st.i >= len(st.parts) {
		return nil, false, io.EOF
	}
	p := st.parts[st.i]
	st.i++
	last := st.i == len(st.parts)
	if last {
		st.w.mu.Lock()
		st.w.fetchedOK[st.b.sb.Header.Height] = true
		st.w.mu.Unlock()
	}
	return p, last, nil
}

type vsByHeightStream struct{ *vsStream }

func (st vsByHeightStream) Recv() (*coregrpc.BlockByHeightResponse, error) {
	first := st.i == 0
	p, last, err := st.next()
	if err != nil {
		return nil, err
	}
	r := &coregrpc.BlockByHeightResponse{BlockPart: p, IsLast: last}
	if first {
		r.Commit = st.b.sb.Commit.ToProto()
		vp, err := st.b.sb.ValidatorSet.ToProto()
		if err != nil {
			panic(err)
		}
		r.ValidatorSet = vp
	}
	return r, nil
}

type vsByHashStream struct{ *vsStream }

func (st vsByHashStream) Recv() (*coregrpc.BlockByHashResponse, error) {
	p, last, err := st.next()
	if err != nil {
		return nil, err
	}
	return &coregrpc.BlockByHashResponse{BlockPart: p, IsLast: last}, nil
}

func (v *vsEndpoint) stream(ctx context.Context, kind string, b *vsBlk, h int64) (*vsStream, error) {
	r, err := v.wait(ctx, kind, h)
	if err != nil {
		return nil, err
	}
	if r == 1 || b == nil {
		return nil, errors.New("verif: endpoint failed to serve the block")
	}
	st := &vsStream{parts: b.parts, b: b, w: v.w, failAt: -1}
	if r == 3 {
		st.failAt = len(b.parts) - 1 // breaks before the last part
	}
	return st, nil
}

func (v *vsEndpoint) BlockByHeight(ctx context.Context, in *coregrpc.BlockByHeightRequest, _ ...grpc.CallOption) (coregrpc.BlockAPI_BlockByHeightClient, error) {
	v.w.mu.Lock()
	b := v.w.blocks[in.Height]
	v.w.mu.Unlock()
	st, err := v.stream(ctx, "fetch", b, in.Height)
	if err != nil {
		return nil, err
	}
	return vsByHeightStream{st}, nil
}

func (v *vsEndpoint) BlockByHash(ctx context.Context, in *coregrpc.BlockByHashRequest, _ ...grpc.CallOption) (coregrpc.BlockAPI_BlockByHashClient, error) {
	v.w.mu.Lock()
	b := v.w.byHash[string(in.Hash)]
	v.w.mu.Unlock()
	var h int64
	if b != nil {
		h = b.sb.Header.Height
	}
	st, err := v.stream(ctx, "fetch-by-hash", b, h)
	if err != nil {
		return nil, err
	}
	return vsByHashStream{st}, nil
}

func (v *vsEndpoint) Commit(ctx context.Context, in *coregrpc.CommitRequest, _ ...grpc.CallOption) (*coregrpc.CommitResponse, error) {
	r, err := v.wait(ctx, "info", in.Height)
	if err != nil {
		return nil, err
	}
	v.w.mu.Lock()
	b := v.w.blocks[in.Height]
	v.w.mu.Unlock()
	if r != 0 || b == nil {
		return nil, errors.New("verif: commit query failed")
	}
	return &coregrpc.CommitResponse{Commit: b.sb.Commit.ToProto()}, nil
}

func (v *vsEndpoint) ValidatorSet(ctx context.Context, in *coregrpc.ValidatorSetRequest, _ ...grpc.CallOption) (*coregrpc.ValidatorSetResponse, error) {
	vp, err := v.w.vals.ToProto()
	if err != nil {
		panic(err)
	}
	return &coregrpc.ValidatorSetResponse{ValidatorSet: vp, Height: in.Height}, nil
}

type vsHeightStream struct {
	grpc.ClientStream
	v   *vsEndpoint
	ctx context.Context
}

func (st vsHeightStream) Recv() (*coregrpc.SubscribeNewHeightsResponse, error) {
	select {
	case h := <-st.v.heights:
		if h < 0 {
			return nil, errors.New("verif: subscription stream broke")
		}
		return &coregrpc.SubscribeNewHeightsResponse{Height: h}, nil
	case <-st.ctx.Done():
		return nil, st.ctx.Err()
	}
}

func (st vsHeightStream) CloseSend() error { return nil }

func (v *vsEndpoint) SubscribeNewHeights(ctx context.Context, _ *coregrpc.SubscribeNewHeightsRequest, _ ...grpc.CallOption) (coregrpc.BlockAPI_SubscribeNewHeightsClient, error) {
	return vsHeightStream{v: v, ctx: ctx}, nil
}

// Status: the first query of an endpoint (chain-id verification at start) is answered at once, later
// ones (sync state) are scheduler decisions.
func (v *vsEndpoint) Status(ctx context.Context, _ *coregrpc.StatusRequest, _ ...grpc.CallOption) (*coregrpc.StatusResponse, error) {
	v.w.mu.Lock()
	v.statusN++
	first := v.statusN == 1
	v.w.mu.Unlock()
	syncing := v.syncing
	if !first {
		r, err := v.wait(ctx, "syncing", 0)
		if err != nil {
			return nil, err
		}
		switch r {
		case 1:
			return nil, errors.New("verif: status query failed")
		case 2:
			syncing = true
		}
	}
	return &coregrpc.StatusResponse{
		NodeInfo: &p2p.DefaultNodeInfo{Network: v.network},
		SyncInfo: &coregrpc.SyncInfo{CatchingUp: syncing},
	}, nil
}

// vsP2PHeaders is the header-only p2p fallback of core.Exchange: it serves the headers of the generated chain.
type vsP2PHeaders struct{ w *vsBridge }

func (p vsP2PHeaders) hdr(b *vsBlk) (*header.ExtendedHeader, error) {
	if b == nil {
		return nil, libhead.ErrNotFound
	}
	return header.MakeExtendedHeader(b.sb.Header, b.sb.Commit, b.sb.ValidatorSet, b.eds)
}

func (p vsP2PHeaders) Head(context.Context, ...libhead.HeadOption[*header.ExtendedHeader]) (*header.ExtendedHeader, error) {
	return nil, libhead.ErrNotFound
}

func (p vsP2PHeaders) Get(_ context.Context, hash libhead.Hash) (*header.ExtendedHeader, error) {
	p.w.s.Fault("p2p-header-fallback")
	p.w.mu.Lock()
	b := p.w.byHash[string(hash)]
	p.w.mu.Unlock()
	return p.hdr(b)
}

func (p vsP2PHeaders) GetByHeight(_ context.Context, h uint64) (*header.ExtendedHeader, error) {
	p.w.s.Fault("p2p-header-fallback")
	p.w.mu.Lock()
	b := p.w.blocks[int64(h)]
	p.w.mu.Unlock()
	return p.hdr(b)
}

func (p vsP2PHeaders) GetRangeByHeight(context.Context, *header.ExtendedHeader, uint64) ([]*header.ExtendedHeader, error) {
	return nil, libhead.ErrNotFound
}

type vsHeaderBcast struct{ w *vsBridge }

func (b vsHeaderBcast) Broadcast(ctx context.Context, eh *header.ExtendedHeader, _ ...pubsub.PubOpt) error {
	w := b.w
	resume := w.ctl.Pause() // the observation itself is not subject to injected faults
	has, _ := w.st.HasByHeight(ctx, eh.Height())
	resume()
	w.mu.Lock()
	w.published = append(w.published, eh.Height())
	w.pubDAH[eh.Height()] = eh.DAH.Hash()
	w.storedAtPublish[eh.Height()] = has
	w.mu.Unlock()
	return nil
}

func (w *vsBridge) livePending() []*vsFetchCall {
	w.mu.Lock()
	defer w.mu.Unlock()
	out := append([]*vsFetchCall(nil), w.pending...)
	sort.SliceStable(out, func(i, j int) bool {
		if out[i].src != out[j].src {
			return out[i].src < out[j].src
		}
		if out[i].kind != out[j].kind {
			return out[i].kind < out[j].kind
		}
		return out[i].height < out[j].height
	})
	return out
}

func (w *vsBridge) release(c *vsFetchCall, r int) {
	w.mu.Lock()
	if r != 0 && c.kind != "syncing" {
		w.fetchFailed[c.height]++
	}
	for i, p := range w.pending {
		if p == c {
			w.pending = append(w.pending[:i], w.pending[i+1:]...)
			break
		}
	}
	w.mu.Unlock()
	c.resp <- r
}

func vsListenerWorld(s *verifsim.Sim, dir string) {
	ctx := context.Background()
	rng := mrand.New(mrand.NewPCG(uint64(s.Choose(1<<16, "data_seed")), 51))
	archival := s.Chance(1, 2, "archival")
	nsrc := s.Range(1, 3, "nsources")
	fsFaults := s.Chance(1, 4, "fs_faults")
	statFaults := !fsFaults && s.Chance(1, 5, "stat_faults")
	withExchange := s.Chance(1, 2, "with_exchange")
	window := time.Hour
	s.Cfg["path"], s.Cfg["archival"], s.Cfg["nsources"], s.Cfg["fs_faults"], s.Cfg["exchange"] = "listener", archival, nsrc, fsFaults, withExchange
	w := &vsBridge{s: s, blocks: map[int64]*vsBlk{}, byHash: map[string]*vsBlk{}, fetchedOK: map[int64]bool{}, fetchFailed: map[int64]int{}, pubDAH: map[uint64][]byte{},
		storedAtPublish: map[uint64]bool{}, dropped: map[string]bool{}, exTouched: map[int64]bool{}, vals: vsValidators()}
	ctl := &verifsim.FSControl{}
	verifsim.InstallFS(ctl)
	st, err := store.NewStore(&store.Parameters{RecentBlocksCacheSize: s.Range(0, 2, "recent_cache")}, dir)
	if err != nil {
		panic(err)
	}
	w.st, w.ctl = st, ctl
	failNext := 0
	failStat := 0
	if statFaults {
		ctl.Fail = func(kind, path string) error {
			if failStat > 0 && kind == "stat" {
				failStat--
				s.Fault("fs-stat-eio")
				return verifsim.ErrIO
			}
			return nil
		}
	}
	if fsFaults {
		ctl.Fail = func(kind, path string) error {
			if failNext > 0 && (kind == "create" || kind == "link" || kind == "write") {
				failNext--
				s.Fault("fs-" + kind + "-enospc")
				return verifsim.ErrNoSpace
			}
			return nil
		}
	}
	nblocks := s.Range(2, 10, "nblocks")
	now := time.Now()
	for h := int64(1); h <= int64(nblocks); h++ {
		var t time.Time
		inside := true
		switch s.ChooseW([]int{6, 2, 1}, "block_time") {
		case 0:
			t = now.Add(-time.Duration(10+rng.IntN(20)) * time.Minute)
		case 1:
			t = now.Add(-window - time.Duration(20+rng.IntN(600))*time.Minute)
			inside = false
		case 2:
			t = now.Add(time.Duration(3+rng.IntN(20)) * time.Second) // the proposer's clock is slightly ahead
		}
		var same *vsBlk
		if h > 1 && !fsFaults && s.Chance(1, 8, "same_square_as_earlier") {
			same = w.blocks[1+int64(rng.IntN(int(h-1)))]
		}
		b := vsMakeBlock(rng, h, t, w.vals, same)
		b.inside = inside
		w.blocks[h] = b
		w.byHash[string(b.sb.Header.Hash())] = b
	}
	var tagged []taggedSource
	var srcs []*vsEndpoint
	var fetchers []*BlockFetcher
	for i := 0; i < nsrc; i++ {
		v := &vsEndpoint{w: w, addr: fmt.Sprintf("endpoint%d", i), heights: make(chan int64, 256), network: vsChainID}
		if i > 0 {
			v.syncing = s.Chance(1, 3, "endpoint_syncing")
			if s.Chance(1, 6, "endpoint_on_other_network") {
				s.Fault("endpoint-on-other-network")
				v.network = "some-other-chain"
				w.dropped[v.addr] = true
			}
		}
		srcs = append(srcs, v)
		bf := &BlockFetcher{client: v, addr: v.addr}
		fetchers = append(fetchers, bf)
		tagged = append(tagged, taggedSource{fetcher: bf, addr: v.addr})
	}
	hashB := func(_ context.Context, n shrexsub.Notification) error {
		w.mu.Lock()
		w.hashes = append(w.hashes, n.Height)
		w.mu.Unlock()
		return nil
	}
	opts := []Option{WithChainID(vsChainID), WithAvailabilityWindow(window)}
	if archival {
		opts = append(opts, WithArchivalMode())
	}
	var fetcher Fetcher = newMultiSource(tagged...)
	if nsrc == 1 && s.Chance(1, 2, "bare_fetcher") {
		fetcher = fetchers[0]
	}
	cl, err := NewListener(vsHeaderBcast{w}, fetcher, hashB, header.MakeExtendedHeader, st, 6*time.Second, opts...)
	if err != nil {
		panic(err)
	}
	var ex *Exchange
	withFallback := withExchange && s.Chance(1, 2, "p2p_fallback")
	s.Cfg["p2p_fallback"] = withFallback
	if withExchange {
		exOpts := opts
		if withFallback {
			exOpts = append(append([]Option{}, opts...), WithP2PExchange(vsP2PHeaders{w}))
		}
		ex, err = NewExchange(fetchers[0], st, header.MakeExtendedHeader, exOpts...)
		if err != nil {
			panic(err)
		}
	}
	s.Go("listener-start", func() {
		defer func() {
			if r := recover(); r != nil {
				s.Violate("c15-listener-panics", "Start", "Listener.Start panicked: %v", r)
			}
		}()
		if err := cl.Start(ctx); err != nil {
			panic(err)
		}
	})
	nsteps := s.Range(5, 60, "nsteps")
	next := int64(1)
	exBusy := 0
	exchangeCall := func(kind int, h int64, amount uint64) {
		exBusy++
		b := w.blocks[h]
		for i := int64(0); i < int64(amount); i++ {
			w.exTouched[h+i] = true
		}
		s.Go(fmt.Sprintf("exchange-%d-h%d", kind, h), func() {
			defer func() { exBusy-- }()
			cctx, cancel := context.WithTimeout(ctx, 15*time.Second)
			defer cancel()
			failedBefore := map[int64]int{}
			w.mu.Lock()
			for i := int64(0); i < int64(amount); i++ {
				failedBefore[h+i] = w.fetchFailed[h+i]
			}
			w.mu.Unlock()
			var got []*header.ExtendedHeader
			var err error
			what := ""
			switch kind {
			case 0:
				what = fmt.Sprintf("Exchange.GetByHeight(%d)", h)
				var eh *header.ExtendedHeader
				eh, err = ex.GetByHeight(cctx, uint64(h))
				if err == nil {
					got = append(got, eh)
				}
			case 1:
				what = fmt.Sprintf("Exchange.Get(hash of %d)", h)
				var eh *header.ExtendedHeader
				eh, err = ex.Get(cctx, libhead.Hash(b.sb.Header.Hash()))
				if err == nil {
					got = append(got, eh)
				}
			case 2:
				what = fmt.Sprintf("Exchange range [%d,%d)", h, h+int64(amount))
				got, err = ex.getRangeByHeight(cctx, uint64(h), amount)
			}
			if err != nil {
				if len(got) != 0 {
					s.Violate("c15-failed-ingest-reported-as-success", "Exchange", "%s returned both headers and an error (%v)", what, err)
				}
				return
			}
			for i, eh := range got {
				want := w.blocks[h+int64(i)]
				if eh == nil || want == nil || int64(eh.Height()) != h+int64(i) || !bytes.Equal(eh.DAH.Hash(), want.dah.Hash()) {
					s.Violate("c15-published-header-differs", "Exchange", "%s: header %d of the answer is not the header of height %d with that block's data availability header", what, i, h+int64(i))
					return
				}
				resume := ctl.Pause()
				has, herr := st.HasByHeight(ctx, eh.Height())
				resume()
				// with a p2p fallback a header may legitimately come without its square - when core could not
				// serve the block; judged when no fetch or commit query of the height failed during the call
				w.mu.Lock()
				coreFailed := w.fetchFailed[int64(eh.Height())] != failedBefore[int64(eh.Height())]
				w.mu.Unlock()
				if withFallback && coreFailed {
					continue
				}
				if herr == nil && !has && (want.inside || archival) {
					s.Violate("c15-obtained-block-not-stored", "Exchange", "%s returned the header of height %d (inside window=%v, archival=%v) but the square is not in the store", what, eh.Height(), want.inside, archival)
					return
				}
			}
		})
	}
	for step := 0; step < nsteps && !s.Violated(); step++ {
		ps := s.Settle()
		alts := s.TaskAlts(ps, 10)
		for _, v := range srcs {
			v := v
			if next <= int64(nblocks) {
				alts = append(alts, verifsim.Alt{Label: v.addr + " announces next", Weight: 8, Do: func() {
					h := next
					if v == srcs[0] || s.Chance(1, 2, "also_advances") {
						next++
					}
					v.heights <- h
				}})
			}
			if next > 1 {
				alts = append(alts, verifsim.Alt{Label: v.addr + " re-announces", Weight: 3, Do: func() {
					s.Fault("duplicate-or-old-announcement")
					v.heights <- 1 + int64(s.Choose(int(next-1), "old_height"))
				}})
			}
			if next+1 <= int64(nblocks) {
				alts = append(alts, verifsim.Alt{Label: v.addr + " skips ahead", Weight: 1, Do: func() {
					s.Fault("gap-announcement")
					v.heights <- next + 1
				}})
			}
			alts = append(alts, verifsim.Alt{Label: v.addr + " subscription breaks", Weight: 1, Do: func() {
				s.Fault("subscription-breaks")
				v.heights <- -1
			}})
		}
		for _, c := range w.livePending() {
			c := c
			lbl := fmt.Sprintf("%s %s h%d", c.src, c.kind, c.height)
			alts = append(alts, verifsim.Alt{Label: lbl + " ok", Weight: 10, Do: func() { w.release(c, 0) }})
			alts = append(alts, verifsim.Alt{Label: lbl + " fails", Weight: 2, Do: func() { s.Fault(c.kind + "-fails"); w.release(c, 1) }})
			switch c.kind {
			case "syncing":
				alts = append(alts, verifsim.Alt{Label: lbl + " says syncing", Weight: 1, Do: func() { s.Fault("endpoint-syncing"); w.release(c, 2) }})
			case "fetch", "fetch-by-hash":
				alts = append(alts, verifsim.Alt{Label: lbl + " breaks mid-stream", Weight: 1, Do: func() { s.Fault("fetch-stream-breaks"); w.release(c, 3) }})
			}
		}
		if ex != nil && exBusy < 2 {
			alts = append(alts, verifsim.Alt{Label: "exchange request", Weight: 5, Do: func() {
				h := 1 + int64(s.Choose(nblocks, "exchange_height"))
				kind := s.ChooseW([]int{3, 1, 2}, "exchange_kind")
				amount := uint64(1)
				if kind == 2 {
					amount = uint64(1 + s.Choose(int(int64(nblocks)-h+1), "exchange_amount"))
				}
				exchangeCall(kind, h, amount)
			}})
		}
		if statFaults && failStat == 0 {
			alts = append(alts, verifsim.Alt{Label: "stat calls start failing", Weight: 3, Do: func() { failStat = 1 + s.Choose(3, "failing_stats") }})
		}
		if fsFaults && failNext == 0 {
			alts = append(alts, verifsim.Alt{Label: "disk fills up", Weight: 2, Do: func() { failNext = 1 + s.Choose(3, "failing_calls") }})
		}
		alts = append(alts, verifsim.Alt{Label: "time passes", Weight: 2, Do: func() {
			s.Stall([]time.Duration{time.Millisecond, time.Second, 11 * time.Second}[s.ChooseW([]int{3, 2, 1}, "stall_len")])
		}})
		s.Pick("step", alts)
	}
	if s.Violated() {
		return
	}
	// end phase: everything pending succeeds, then the listener must still be responsive
	failNext, failStat = 0, 0
	ctl.Fail = nil
	for i := 0; i < 400; i++ {
		s.Drain(200)
		p := w.livePending()
		if len(p) == 0 {
			break
		}
		w.release(p[0], 0)
	}
	s.Drain(200)
	if s.Violated() {
		return
	}
	// nothing may be in the store that no fetch ever delivered completely
	for h := int64(1); h <= int64(nblocks); h++ {
		if has, _ := st.HasByHeight(ctx, uint64(h)); has && !w.fetchedOK[h] {
			s.Violate("c15-failed-ingest-leaves-data", "store", "height %d is in the store although no fetch of it ever completed", h)
			return
		}
	}
	vsJudgeStore(s, w, st, archival, int64(nblocks), false)
	// a final honest announcement of every block by the first endpoint: each in-window block must end up stored
	for h := int64(1); h <= int64(nblocks) && !s.Violated(); h++ {
		srcs[0].heights <- h
		for i := 0; i < 50; i++ {
			s.Settle()
			p := w.livePending()
			if len(p) == 0 {
				break
			}
			w.release(p[0], 0)
		}
	}
	s.Settle()
	vsJudgeStore(s, w, st, archival, int64(nblocks), true)
	w.mu.Lock()
	used := w.usedDropped
	w.mu.Unlock()
	if used != "" && !s.Violated() {
		s.Violate("c15-dropped-endpoint-used", "MultiSource", "an endpoint that reported another network at start was used afterwards: %s", used)
	}
	stopCtx, cancel := context.WithTimeout(ctx, time.Minute)
	defer cancel()
	stopped := s.Go("stop", func() { _ = cl.Stop(stopCtx) })
	s.Drain(200)
	if !stopped.Done() {
		s.Stall(2 * time.Minute)
		s.Drain(200)
		if !stopped.Done() && !s.Violated() {
			s.Violate("c15-listener-unresponsive", "Stop", "Listener.Stop does not return")
		}
	}
}

// vsJudgeStore checks C15's clauses over the final store content and the recorded publications.
func vsJudgeStore(s *verifsim.Sim, w *vsBridge, st *store.Store, archival bool, nblocks int64, final bool) {
	ctx := context.Background()
	if s.Violated() {
		return
	}
	for h := int64(1); h <= nblocks; h++ {
		b := w.blocks[h]
		has, err := st.HasByHeight(ctx, uint64(h))
		if err != nil {
			s.Violate("c15-store-error", "HasByHeight", "HasByHeight(%d): %v", h, err)
			return
		}
		if has {
			acc, err := st.GetByHeight(ctx, uint64(h))
			if err != nil {
				s.Violate("c15-stored-unreadable", "GetByHeight", "height %d is listed but cannot be opened: %v", h, err)
				return
			}
			roots, err := acc.AxisRoots(ctx)
			if err != nil || !bytes.Equal(roots.Hash(), b.dah.Hash()) {
				_ = acc.Close()
				s.Violate("c15-stored-square-differs", "AxisRoots", "the square stored under height %d has a different data availability header than the block of that height (err=%v)", h, err)
				return
			}
			shs, err := acc.Shares(ctx)
			_ = acc.Close()
			ref := b.eds.FlattenedODS()
			if err != nil || len(shs) != len(ref) {
				s.Violate("c15-stored-square-differs", "Shares", "height %d: stored shares unreadable or of different amount (err=%v, %d vs %d)", h, err, len(shs), len(ref))
				return
			}
			for i := range shs {
				if !bytes.Equal(shs[i].ToBytes(), ref[i]) {
					s.Violate("c15-stored-square-differs", "Shares", "height %d: stored share %d differs from the block's square", h, i)
					return
				}
			}
			q4, _ := st.HasQ4ByHash(ctx, b.dah.Hash())
			empty := share.DataHash(b.dah.Hash()).IsEmptyEDS()
			switch {
			case !b.inside && !archival:
				s.Violate("c15-pruned-node-stores-old-block", "store", "a pruned node stored height %d whose timestamp lies outside the availability window", h)
				return
			case !b.inside && archival && q4 && !empty && !vsSameHashInside(w, h, nblocks):
				s.Violate("c15-archival-stores-parity-of-old-block", "store", "an archival node stored the parity quadrant of height %d, which lies outside the availability window", h)
				return
			case b.inside && !q4 && !empty:
				s.Violate("c15-window-block-without-parity", "store", "height %d lies inside the availability window but is stored without its parity quadrant", h)
				return
			}
		} else if final && (b.inside || archival) {
			s.Violate("c15-obtained-block-not-stored", "store", "height %d (inside window=%v, archival=%v) was announced and fetched successfully in a fault-free end phase but is not stored", h, b.inside, archival)
			return
		}
	}
	w.mu.Lock()
	defer w.mu.Unlock()
	count := map[uint64]int{}
	for _, h := range w.published {
		count[h]++
		b := w.blocks[int64(h)]
		if b == nil || !bytes.Equal(w.pubDAH[h], b.dah.Hash()) {
			s.Violate("c15-published-header-differs", "Broadcast", "the extended header published for height %d carries a data availability header that is not the block's", h)
			return
		}
		if !w.storedAtPublish[h] {
			s.Violate("c15-published-before-stored", "Broadcast", "the header of height %d was published while the square was not in the store", h)
			return
		}
	}
	for h, n := range count {
		if n > 1 {
			s.Violate("c15-published-twice", "Broadcast", "the header of height %d was published %d times", h, n)
			return
		}
	}
	if final {
		for h := int64(1); h <= nblocks; h++ {
			b := w.blocks[h]
			if (b.inside || archival) && count[uint64(h)] == 0 && !w.exTouched[h] {
				s.Violate("c15-stored-block-never-published", "Broadcast", "height %d was ingested from consensus and stored but its header was never published", h)
				return
			}
		}
	}
}

// vsSameHashInside: another height inside the window carries the same (e.g. empty or identical) square.
func vsSameHashInside(w *vsBridge, h, n int64) bool {
	for o := int64(1); o <= n; o++ {
		if o != h && w.blocks[o].inside && bytes.Equal(w.blocks[o].dah.Hash(), w.blocks[h].dah.Hash()) {
			return true
		}
	}
	return false
}

// ------------------------------------------------------------ availability path

type vsEDSGetter struct {
	shwap.Getter
	next func(h *header.ExtendedHeader) (*rsmt2d.ExtendedDataSquare, error)
}

func (g vsEDSGetter) GetEDS(ctx context.Context, h *header.ExtendedHeader) (*rsmt2d.ExtendedDataSquare, error) {
	return g.next(h)
}

func vsAvailabilityWorld(s *verifsim.Sim, dir string) {
	rng := mrand.New(mrand.NewPCG(uint64(s.Choose(1<<16, "data_seed")), 61))
	archival := s.Chance(1, 2, "archival")
	s.Cfg["path"], s.Cfg["archival"] = "availability", archival
	st, err := store.NewStore(&store.Parameters{RecentBlocksCacheSize: s.Range(0, 2, "recent_cache")}, dir)
	if err != nil {
		panic(err)
	}
	outcome := 0
	var cur *vsBlk
	g := vsEDSGetter{next: func(*header.ExtendedHeader) (*rsmt2d.ExtendedDataSquare, error) {
		switch outcome {
		case 1:
			return nil, fmt.Errorf("verif: %w", shwap.ErrNotFound)
		case 2:
			return nil, fmt.Errorf("verif: %w", context.DeadlineExceeded)
		case 3:
			return nil, fmt.Errorf("verif: %w", context.Canceled)
		case 4:
			return nil, &byzantine.ErrByzantine{Index: 1}
		case 5:
			return nil, errors.New("verif: some other failure")
		}
		return cur.eds, nil
	}}
	var opts []full.Option
	if archival {
		opts = append(opts, full.WithArchivalMode())
	}
	fa := full.NewShareAvailability(st, g, opts...)
	ctx := context.Background()
	n := s.Range(1, 8, "ncalls")
	stored := map[int64]*vsBlk{}
	for i := 0; i < n && !s.Violated(); i++ {
		h := int64(1 + s.Choose(4, "height"))
		b := stored[h]
		if b == nil {
			t := time.Now().Add(-10 * time.Minute)
			inside := true
			if s.Chance(1, 4, "old_block") {
				t = time.Now().Add(-30 * 24 * time.Hour)
				inside = false
			}
			var same *vsBlk
			for oh := int64(1); oh <= 4; oh++ {
				if o := stored[oh]; o != nil && same == nil && s.Chance(1, 4, "same_square_as_stored") {
					same = o
				}
			}
			b = vsMakeBlock(rng, h, t, vsValidators(), same)
			b.inside = inside
		}
		cur = b
		outcome = s.ChooseW([]int{6, 1, 1, 1, 1, 1}, "getter_outcome")
		eh, err := header.MakeExtendedHeader(b.sb.Header, b.sb.Commit, b.sb.ValidatorSet, b.eds)
		if err != nil {
			panic(err)
		}
		already, _ := st.HasByHeight(ctx, uint64(h))
		empty := share.DataHash(b.dah.Hash()).IsEmptyEDS()
		err = fa.SharesAvailable(ctx, eh)
		has, _ := st.HasByHeight(ctx, uint64(h))
		what := fmt.Sprintf("SharesAvailable(h=%d inside=%v empty=%v already=%v getter=%d archival=%v)", h, b.inside, empty, already, outcome, archival)
		switch {
		case !b.inside && !archival:
			if has && !already {
				s.Violate("c15-pruned-node-stores-old-block", "SharesAvailable", "%s stored a block outside the window", what)
			}
		case empty || already || outcome == 0:
			if err != nil {
				s.Violate("c15-availability-fails", "SharesAvailable", "%s failed although the square was obtainable: %v", what, err)
			} else if !has {
				s.Violate("c15-obtained-block-not-stored", "SharesAvailable", "%s returned nil but nothing is stored", what)
			} else {
				stored[h] = b
			}
		default:
			if err == nil {
				s.Violate("c15-failed-ingest-reported-as-success", "SharesAvailable", "%s returned nil although the getter failed", what)
			} else if has {
				s.Violate("c15-failed-ingest-leaves-data", "SharesAvailable", "%s failed (%v) but the height is now in the store", what, err)
			}
			var byz *byzantine.ErrByzantine
			switch outcome {
			case 1, 2:
				if !errors.Is(err, share.ErrNotAvailable) {
					s.Violate("c15-wrong-error-class", "SharesAvailable", "%s: want ErrNotAvailable, got %v", what, err)
				}
			case 3:
				if !errors.Is(err, context.Canceled) {
					s.Violate("c15-wrong-error-class", "SharesAvailable", "%s: want context.Canceled, got %v", what, err)
				}
			case 4:
				if !errors.As(err, &byz) {
					s.Violate("c15-wrong-error-class", "SharesAvailable", "%s: the byzantine error was not passed on: %v", what, err)
				}
			}
		}
		if has && !s.Violated() {
			acc, gerr := st.GetByHeight(ctx, uint64(h))
			if gerr != nil {
				s.Violate("c15-stored-unreadable", "GetByHeight", "%s: stored height cannot be opened: %v", what, gerr)
				return
			}
			roots, rerr := acc.AxisRoots(ctx)
			_ = acc.Close()
			if rerr != nil || !bytes.Equal(roots.Hash(), eh.DAH.Hash()) {
				s.Violate("c15-stored-square-differs", "AxisRoots", "%s: the stored square's data availability header differs from the header that was given", what)
				return
			}
			q4, _ := st.HasQ4ByHash(ctx, b.dah.Hash())
			if !empty && b.inside && !q4 {
				s.Violate("c15-window-block-without-parity", "store", "%s: stored without the parity quadrant", what)
			}
			sharedInside := false
			for _, o := range stored {
				if o != b && o.inside && bytes.Equal(o.dah.Hash(), b.dah.Hash()) {
					sharedInside = true
				}
			}
			if !empty && !b.inside && q4 && !sharedInside {
				s.Violate("c15-archival-stores-parity-of-old-block", "store", "%s: stored with the parity quadrant", what)
			}
		}
	}
}

var _ = libshare.ShareSize
