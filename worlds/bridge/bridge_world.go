package core

// W-BRIDGE: deterministic simulation world for C15 (a bridge node stores
// exactly the block it announces or was asked to keep). Real: core.Listener
// (Start, listen, handleNewBlockEvent, handleNewSignedBlock, storeEDS),
// core.MultiSource, da.ConstructEDS, header.MakeExtendedHeader, store.Store on
// a scratch directory, full.ShareAvailability.SharesAvailable. Stub:
// blockSource endpoints, broadcasters, shwap.Getter for the availability path.

import (
	"bytes"
	"context"
	"errors"
	"fmt"
	mrand "math/rand/v2"
	"os"
	"sort"
	"sync"
	"testing"
	"time"

	"github.com/cometbft/cometbft/crypto/tmhash"
	cmtversion "github.com/cometbft/cometbft/proto/tendermint/version"
	"github.com/cometbft/cometbft/types"
	pubsub "github.com/libp2p/go-libp2p-pubsub"

	"github.com/celestiaorg/celestia-app/v9/pkg/appconsts"
	"github.com/celestiaorg/celestia-app/v9/pkg/da"
	libshare "github.com/celestiaorg/go-square/v4/share"
	"github.com/celestiaorg/rsmt2d"

	"github.com/celestiaorg/celestia-node/header"
	"github.com/celestiaorg/celestia-node/internal/verifsim"
	"github.com/celestiaorg/celestia-node/share"
	"github.com/celestiaorg/celestia-node/share/availability/full"
	"github.com/celestiaorg/celestia-node/share/eds/byzantine"
	"github.com/celestiaorg/celestia-node/share/ipld"
	"github.com/celestiaorg/celestia-node/share/shwap"
	"github.com/celestiaorg/celestia-node/share/shwap/p2p/shrex/shrexsub"
	"github.com/celestiaorg/celestia-node/store"
)

func TestVerifC15(t *testing.T) {
	verifsim.Main(t, verifsim.World{
		Prop: "C15", Name: "W-BRIDGE",
		Run: func(s *verifsim.Sim) {
			dir, err := os.MkdirTemp("", "vbridge-")
			if err != nil {
				panic(err)
			}
			defer os.RemoveAll(dir)
			defer verifsim.InstallFS(nil)
			defer ipld.VerifNewPool()()
			if s.ChooseW([]int{3, 1}, "path") == 0 {
				vsListenerWorld(s, dir)
			} else {
				vsAvailabilityWorld(s, dir)
			}
			s.Finish()
		},
		Real: []string{"core.Listener (Start, Stop, listen, handleNewBlockEvent, handleNewSignedBlock)", "core.storeEDS", "core.MultiSource", "da.ConstructEDS", "header.MakeExtendedHeader", "store.Store on a scratch directory", "full.ShareAvailability.SharesAvailable", "availability.IsWithinWindow"},
		Stub: []string{"consensus endpoints (blockSource)", "header broadcaster and shrex-sub hash broadcaster (recorders)", "shwap.Getter of the availability path", "consensus itself: generated unsigned blocks whose data hash is the DAH of their constructed square"},
	})
}

const vsChainID = "verif-chain"

type vsBlk struct {
	sb     *SignedBlock
	eds    *rsmt2d.ExtendedDataSquare
	dah    da.DataAvailabilityHeader
	inside bool // timestamp inside the availability window (incl. slightly ahead of the clock)
}

func vsMakeBlock(rng *mrand.Rand, h int64, t time.Time) *vsBlk {
	var txs types.Txs
	switch rng.IntN(4) {
	case 0: // empty block
	case 1:
		txs = append(txs, vsBytes(rng, 20+rng.IntN(200)))
	default:
		for i, n := 0, 1+rng.IntN(6); i < n; i++ {
			txs = append(txs, vsBytes(rng, 50+rng.IntN(1500)))
		}
	}
	sq, err := da.ConstructEDS(txs.ToSliceOfBytes(), appconsts.Version, -1)
	if err != nil {
		panic(err)
	}
	dah, err := da.NewDataAvailabilityHeader(sq)
	if err != nil {
		panic(err)
	}
	hd := &types.Header{
		Version: cmtversion.Consensus{Block: 11, App: appconsts.Version},
		ChainID: vsChainID, Height: h, Time: t, DataHash: dah.Hash(),
	}
	var hb [8]byte
	for i := range hb {
		hb[i] = byte(h >> (8 * i))
	}
	return &vsBlk{
		sb:  &SignedBlock{Header: hd, Commit: &types.Commit{Height: h, BlockID: types.BlockID{Hash: tmhash.Sum(hb[:])}}, Data: &types.Data{Txs: txs}, ValidatorSet: &types.ValidatorSet{}},
		eds: sq, dah: dah,
	}
}

func vsBytes(rng *mrand.Rand, n int) []byte {
	b := make([]byte, n)
	for i := range b {
		b[i] = byte(rng.IntN(256))
	}
	return b
}

// ---- consensus endpoint stub

type vsFetchCall struct {
	src    string
	height int64
	kind   string // "fetch" or "syncing"
	resp   chan int
}

type vsSource struct {
	w       *vsBridge
	addr    string
	ch      chan BlockEvent
	syncing bool
}

type vsBridge struct {
	s               *verifsim.Sim
	mu              sync.Mutex
	blocks          map[int64]*vsBlk
	pending         []*vsFetchCall
	fetchedOK       map[int64]bool // a fetch of the height succeeded at least once
	published       []uint64
	pubDAH          map[uint64][]byte
	hashes          []uint64
	st              *store.Store
	storedAtPublish map[uint64]bool
}

func (v *vsSource) SubscribeNewBlockEvent(context.Context) (chan BlockEvent, error) { return v.ch, nil }
func (v *vsSource) ChainID(context.Context) (string, error)                         { return vsChainID, nil }

func (v *vsSource) wait(ctx context.Context, kind string, h int64) (int, error) {
	c := &vsFetchCall{src: v.addr, height: h, kind: kind, resp: make(chan int, 1)}
	v.w.mu.Lock()
	v.w.pending = append(v.w.pending, c)
	v.w.mu.Unlock()
	select {
	case r := <-c.resp:
		return r, nil
	case <-ctx.Done():
		v.w.mu.Lock()
		for i, p := range v.w.pending {
			if p == c {
				v.w.pending = append(v.w.pending[:i], v.w.pending[i+1:]...)
				break
			}
		}
		v.w.mu.Unlock()
		return 0, ctx.Err()
	}
}

func (v *vsSource) GetSignedBlock(ctx context.Context, h int64) (*SignedBlock, error) {
	r, err := v.wait(ctx, "fetch", h)
	if err != nil {
		return nil, err
	}
	if r != 0 {
		return nil, errors.New("verif: endpoint failed to serve the block")
	}
	v.w.mu.Lock()
	defer v.w.mu.Unlock()
	b := v.w.blocks[h]
	if b == nil {
		return nil, errors.New("verif: unknown height")
	}
	v.w.fetchedOK[h] = true
	return b.sb, nil
}

func (v *vsSource) IsSyncing(ctx context.Context) (bool, error) {
	r, err := v.wait(ctx, "syncing", 0)
	if err != nil {
		return false, err
	}
	switch r {
	case 1:
		return false, errors.New("verif: status query failed")
	case 2:
		return true, nil
	}
	return v.syncing, nil
}

type vsHeaderBcast struct{ w *vsBridge }

func (b vsHeaderBcast) Broadcast(ctx context.Context, eh *header.ExtendedHeader, _ ...pubsub.PubOpt) error {
	w := b.w
	has, _ := w.st.HasByHeight(ctx, eh.Height())
	w.mu.Lock()
	w.published = append(w.published, eh.Height())
	w.pubDAH[eh.Height()] = eh.DAH.Hash()
	w.storedAtPublish[eh.Height()] = has
	w.mu.Unlock()
	return nil
}

func (w *vsBridge) livePending() []*vsFetchCall {
	w.mu.Lock()
	defer w.mu.Unlock()
	out := append([]*vsFetchCall(nil), w.pending...)
	sort.Slice(out, func(i, j int) bool {
		if out[i].src != out[j].src {
			return out[i].src < out[j].src
		}
		return out[i].kind+fmt.Sprint(out[i].height) < out[j].kind+fmt.Sprint(out[j].height)
	})
	return out
}

func (w *vsBridge) release(c *vsFetchCall, r int) {
	w.mu.Lock()
	for i, p := range w.pending {
		if p == c {
			w.pending = append(w.pending[:i], w.pending[i+1:]...)
			break
		}
	}
	w.mu.Unlock()
	c.resp <- r
}

func vsListenerWorld(s *verifsim.Sim, dir string) {
	ctx := context.Background()
	rng := mrand.New(mrand.NewPCG(uint64(s.Choose(1<<16, "data_seed")), 51))
	archival := s.Chance(1, 2, "archival")
	nsrc := s.Range(1, 3, "nsources")
	fsFaults := s.Chance(1, 4, "fs_faults")
	window := time.Hour
	s.Cfg["path"], s.Cfg["archival"], s.Cfg["nsources"], s.Cfg["fs_faults"] = "listener", archival, nsrc, fsFaults
	w := &vsBridge{s: s, blocks: map[int64]*vsBlk{}, fetchedOK: map[int64]bool{}, pubDAH: map[uint64][]byte{}, storedAtPublish: map[uint64]bool{}}
	ctl := &verifsim.FSControl{}
	verifsim.InstallFS(ctl)
	st, err := store.NewStore(&store.Parameters{RecentBlocksCacheSize: s.Range(0, 2, "recent_cache")}, dir)
	if err != nil {
		panic(err)
	}
	w.st = st
	failNext := 0
	if fsFaults {
		ctl.Fail = func(kind, path string) error {
			if failNext > 0 && (kind == "create" || kind == "link" || kind == "write") {
				failNext--
				s.Fault("fs-" + kind + "-enospc")
				return verifsim.ErrNoSpace
			}
			return nil
		}
	}
	nblocks := s.Range(2, 10, "nblocks")
	now := time.Now()
	for h := int64(1); h <= int64(nblocks); h++ {
		var t time.Time
		inside := true
		switch s.ChooseW([]int{6, 2, 1}, "block_time") {
		case 0:
			t = now.Add(-time.Duration(10+rng.IntN(20)) * time.Minute)
		case 1:
			t = now.Add(-window - time.Duration(20+rng.IntN(600))*time.Minute)
			inside = false
		case 2:
			t = now.Add(time.Duration(3+rng.IntN(20)) * time.Second) // the proposer's clock is slightly ahead
		}
		b := vsMakeBlock(rng, h, t)
		b.inside = inside
		w.blocks[h] = b
	}
	var tagged []taggedSource
	var srcs []*vsSource
	for i := 0; i < nsrc; i++ {
		v := &vsSource{w: w, addr: fmt.Sprintf("endpoint%d", i), ch: make(chan BlockEvent, 64), syncing: i > 0 && s.Chance(1, 3, "endpoint_syncing")}
		srcs = append(srcs, v)
		tagged = append(tagged, taggedSource{fetcher: v, addr: v.addr})
	}
	ms := newMultiSource(tagged...)
	hashB := func(_ context.Context, n shrexsub.Notification) error {
		w.mu.Lock()
		w.hashes = append(w.hashes, n.Height)
		w.mu.Unlock()
		return nil
	}
	opts := []Option{WithChainID(vsChainID), WithAvailabilityWindow(window)}
	if archival {
		opts = append(opts, WithArchivalMode())
	}
	cl, err := NewListener(vsHeaderBcast{w}, ms, hashB, header.MakeExtendedHeader, st, 6*time.Second, opts...)
	if err != nil {
		panic(err)
	}
	started := s.Go("listener-start", func() {
		defer func() {
			if r := recover(); r != nil {
				s.Violate("c15-listener-panics", "Start", "Listener.Start panicked: %v", r)
			}
		}()
		if err := cl.Start(ctx); err != nil {
			panic(err)
		}
	})
	_ = started
	announced := map[int64]int{}
	nsteps := s.Range(5, 60, "nsteps")
	next := int64(1)
	for step := 0; step < nsteps && !s.Violated(); step++ {
		ps := s.Settle()
		alts := s.TaskAlts(ps, 10)
		for _, v := range srcs {
			v := v
			if next <= int64(nblocks) {
				alts = append(alts, verifsim.Alt{Label: v.addr + " announces next", Weight: 8, Do: func() {
					h := next
					if v == srcs[0] || s.Chance(1, 2, "also_advances") {
						next++
					}
					announced[h]++
					v.ch <- BlockEvent{Height: h}
				}})
			}
			if next > 1 {
				alts = append(alts, verifsim.Alt{Label: v.addr + " re-announces", Weight: 3, Do: func() {
					s.Fault("duplicate-or-old-announcement")
					h := 1 + int64(s.Choose(int(next-1), "old_height"))
					announced[h]++
					v.ch <- BlockEvent{Height: h}
				}})
			}
			if next+1 <= int64(nblocks) {
				alts = append(alts, verifsim.Alt{Label: v.addr + " skips ahead", Weight: 1, Do: func() {
					s.Fault("gap-announcement")
					h := next + 1
					announced[h]++
					v.ch <- BlockEvent{Height: h}
				}})
			}
		}
		for _, c := range w.livePending() {
			c := c
			lbl := fmt.Sprintf("%s %s h%d", c.src, c.kind, c.height)
			alts = append(alts, verifsim.Alt{Label: lbl + " ok", Weight: 10, Do: func() { w.release(c, 0) }})
			alts = append(alts, verifsim.Alt{Label: lbl + " fails", Weight: 2, Do: func() { s.Fault(c.kind + "-fails"); w.release(c, 1) }})
			if c.kind == "syncing" {
				alts = append(alts, verifsim.Alt{Label: lbl + " says syncing", Weight: 1, Do: func() { s.Fault("endpoint-syncing"); w.release(c, 2) }})
			}
		}
		if fsFaults && failNext == 0 {
			alts = append(alts, verifsim.Alt{Label: "disk fills up", Weight: 2, Do: func() { failNext = 1 + s.Choose(3, "failing_calls") }})
		}
		alts = append(alts, s.StallAlt([]time.Duration{time.Millisecond, time.Second, 11 * time.Second}[s.ChooseW([]int{3, 2, 1}, "stall_len")], 2))
		s.Pick("step", alts)
	}
	if s.Violated() {
		return
	}
	// end phase: everything pending succeeds, then the listener must still be responsive
	failNext = 0
	ctl.Fail = nil
	for i := 0; i < 200; i++ {
		s.Drain(200)
		p := w.livePending()
		if len(p) == 0 {
			break
		}
		w.release(p[0], 0)
	}
	s.Drain(200)
	// a final honest announcement of every block by the first endpoint: each in-window block must end up stored
	for h := int64(1); h <= int64(nblocks); h++ {
		srcs[0].ch <- BlockEvent{Height: h}
		announced[h]++
		for i := 0; i < 50; i++ {
			s.Settle()
			p := w.livePending()
			if len(p) == 0 {
				break
			}
			w.release(p[0], 0)
		}
	}
	s.Settle()
	vsJudgeStore(s, w, st, archival, int64(nblocks), true)
	stopCtx, cancel := context.WithTimeout(ctx, time.Minute)
	defer cancel()
	stopped := s.Go("stop", func() { _ = cl.Stop(stopCtx) })
	s.Drain(200)
	if !stopped.Done() {
		s.Stall(2 * time.Minute)
		s.Drain(200)
		if !stopped.Done() {
			s.Violate("c15-listener-unresponsive", "Stop", "Listener.Stop does not return")
		}
	}
}

// vsJudgeStore checks C15's clauses over the final store content and the recorded publications.
func vsJudgeStore(s *verifsim.Sim, w *vsBridge, st *store.Store, archival bool, nblocks int64, final bool) {
	ctx := context.Background()
	if s.Violated() {
		return
	}
	for h := int64(1); h <= nblocks; h++ {
		b := w.blocks[h]
		has, err := st.HasByHeight(ctx, uint64(h))
		if err != nil {
			s.Violate("c15-store-error", "HasByHeight", "HasByHeight(%d): %v", h, err)
			return
		}
		if has {
			acc, err := st.GetByHeight(ctx, uint64(h))
			if err != nil {
				s.Violate("c15-stored-unreadable", "GetByHeight", "height %d is listed but cannot be opened: %v", h, err)
				return
			}
			roots, err := acc.AxisRoots(ctx)
			if err != nil || !bytes.Equal(roots.Hash(), b.dah.Hash()) {
				_ = acc.Close()
				s.Violate("c15-stored-square-differs", "AxisRoots", "the square stored under height %d has a different data availability header than the block of that height (err=%v)", h, err)
				return
			}
			shs, err := acc.Shares(ctx)
			_ = acc.Close()
			ref := b.eds.FlattenedODS()
			if err != nil || len(shs) != len(ref) {
				s.Violate("c15-stored-square-differs", "Shares", "height %d: stored shares unreadable or of different amount (err=%v, %d vs %d)", h, err, len(shs), len(ref))
				return
			}
			for i := range shs {
				if !bytes.Equal(shs[i].ToBytes(), ref[i]) {
					s.Violate("c15-stored-square-differs", "Shares", "height %d: stored share %d differs from the block's square", h, i)
					return
				}
			}
			q4, _ := st.HasQ4ByHash(ctx, b.dah.Hash())
			empty := share.DataHash(b.dah.Hash()).IsEmptyEDS()
			switch {
			case !b.inside && !archival:
				s.Violate("c15-pruned-node-stores-old-block", "store", "a pruned node stored height %d whose timestamp lies outside the availability window", h)
				return
			case !b.inside && archival && q4 && !empty && !vsSameHashInside(w, h, nblocks):
				s.Violate("c15-archival-stores-parity-of-old-block", "store", "an archival node stored the parity quadrant of height %d, which lies outside the availability window", h)
				return
			case b.inside && !q4 && !empty:
				s.Violate("c15-window-block-without-parity", "store", "height %d lies inside the availability window but is stored without its parity quadrant", h)
				return
			}
		} else if final && (b.inside || archival) {
			s.Violate("c15-obtained-block-not-stored", "store", "height %d (inside window=%v, archival=%v) was announced and fetched successfully in a fault-free end phase but is not stored", h, b.inside, archival)
			return
		}
	}
	w.mu.Lock()
	defer w.mu.Unlock()
	count := map[uint64]int{}
	for _, h := range w.published {
		count[h]++
		b := w.blocks[int64(h)]
		if b == nil || !bytes.Equal(w.pubDAH[h], b.dah.Hash()) {
			s.Violate("c15-published-header-differs", "Broadcast", "the extended header published for height %d carries a data availability header that is not the block's", h)
			return
		}
		if !w.storedAtPublish[h] {
			s.Violate("c15-published-before-stored", "Broadcast", "the header of height %d was published while the square was not in the store", h)
			return
		}
	}
	for h, n := range count {
		if n > 1 {
			s.Violate("c15-published-twice", "Broadcast", "the header of height %d was published %d times", h, n)
			return
		}
	}
	if final {
		for h := int64(1); h <= nblocks; h++ {
			b := w.blocks[h]
			if (b.inside || archival) && count[uint64(h)] == 0 {
				s.Violate("c15-stored-block-never-published", "Broadcast", "height %d was ingested from consensus and stored but its header was never published", h)
				return
			}
		}
	}
}

// vsSameHashInside: another height inside the window carries the same (e.g. empty or identical) square.
func vsSameHashInside(w *vsBridge, h, n int64) bool {
	for o := int64(1); o <= n; o++ {
		if o != h && w.blocks[o].inside && bytes.Equal(w.blocks[o].dah.Hash(), w.blocks[h].dah.Hash()) {
			return true
		}
	}
	return false
}

// ------------------------------------------------------------ availability path

type vsEDSGetter struct {
	shwap.Getter
	next func(h *header.ExtendedHeader) (*rsmt2d.ExtendedDataSquare, error)
}

func (g vsEDSGetter) GetEDS(ctx context.Context, h *header.ExtendedHeader) (*rsmt2d.ExtendedDataSquare, error) {
	return g.next(h)
}

func vsAvailabilityWorld(s *verifsim.Sim, dir string) {
	rng := mrand.New(mrand.NewPCG(uint64(s.Choose(1<<16, "data_seed")), 61))
	archival := s.Chance(1, 2, "archival")
	s.Cfg["path"], s.Cfg["archival"] = "availability", archival
	st, err := store.NewStore(&store.Parameters{RecentBlocksCacheSize: s.Range(0, 2, "recent_cache")}, dir)
	if err != nil {
		panic(err)
	}
	outcome := 0
	var cur *vsBlk
	g := vsEDSGetter{next: func(*header.ExtendedHeader) (*rsmt2d.ExtendedDataSquare, error) {
		switch outcome {
		case 1:
			return nil, fmt.Errorf("verif: %w", shwap.ErrNotFound)
		case 2:
			return nil, fmt.Errorf("verif: %w", context.DeadlineExceeded)
		case 3:
			return nil, fmt.Errorf("verif: %w", context.Canceled)
		case 4:
			return nil, &byzantine.ErrByzantine{Index: 1}
		case 5:
			return nil, errors.New("verif: some other failure")
		}
		return cur.eds, nil
	}}
	var opts []full.Option
	if archival {
		opts = append(opts, full.WithArchivalMode())
	}
	fa := full.NewShareAvailability(st, g, opts...)
	ctx := context.Background()
	n := s.Range(1, 8, "ncalls")
	stored := map[int64]*vsBlk{}
	for i := 0; i < n && !s.Violated(); i++ {
		h := int64(1 + s.Choose(4, "height"))
		b := stored[h]
		if b == nil {
			t := time.Now().Add(-10 * time.Minute)
			inside := true
			if s.Chance(1, 4, "old_block") {
				t = time.Now().Add(-30 * 24 * time.Hour)
				inside = false
			}
			b = vsMakeBlock(rng, h, t)
			b.inside = inside
		}
		cur = b
		outcome = s.ChooseW([]int{6, 1, 1, 1, 1, 1}, "getter_outcome")
		eh, err := header.MakeExtendedHeader(b.sb.Header, b.sb.Commit, b.sb.ValidatorSet, b.eds)
		if err != nil {
			panic(err)
		}
		already, _ := st.HasByHeight(ctx, uint64(h))
		empty := share.DataHash(b.dah.Hash()).IsEmptyEDS()
		err = fa.SharesAvailable(ctx, eh)
		has, _ := st.HasByHeight(ctx, uint64(h))
		what := fmt.Sprintf("SharesAvailable(h=%d inside=%v empty=%v already=%v getter=%d archival=%v)", h, b.inside, empty, already, outcome, archival)
		switch {
		case !b.inside && !archival:
			if has && !already {
				s.Violate("c15-pruned-node-stores-old-block", "SharesAvailable", "%s stored a block outside the window", what)
			}
		case empty || already || outcome == 0:
			if err != nil {
				s.Violate("c15-availability-fails", "SharesAvailable", "%s failed although the square was obtainable: %v", what, err)
			} else if !has {
				s.Violate("c15-obtained-block-not-stored", "SharesAvailable", "%s returned nil but nothing is stored", what)
			} else {
				stored[h] = b
			}
		default:
			if err == nil {
				s.Violate("c15-failed-ingest-reported-as-success", "SharesAvailable", "%s returned nil although the getter failed", what)
			} else if has {
				s.Violate("c15-failed-ingest-leaves-data", "SharesAvailable", "%s failed (%v) but the height is now in the store", what, err)
			}
			var byz *byzantine.ErrByzantine
			switch outcome {
			case 1, 2:
				if !errors.Is(err, share.ErrNotAvailable) {
					s.Violate("c15-wrong-error-class", "SharesAvailable", "%s: want ErrNotAvailable, got %v", what, err)
				}
			case 3:
				if !errors.Is(err, context.Canceled) {
					s.Violate("c15-wrong-error-class", "SharesAvailable", "%s: want context.Canceled, got %v", what, err)
				}
			case 4:
				if !errors.As(err, &byz) {
					s.Violate("c15-wrong-error-class", "SharesAvailable", "%s: the byzantine error was not passed on: %v", what, err)
				}
			}
		}
		if has && !s.Violated() {
			acc, gerr := st.GetByHeight(ctx, uint64(h))
			if gerr != nil {
				s.Violate("c15-stored-unreadable", "GetByHeight", "%s: stored height cannot be opened: %v", what, gerr)
				return
			}
			roots, rerr := acc.AxisRoots(ctx)
			_ = acc.Close()
			if rerr != nil || !bytes.Equal(roots.Hash(), eh.DAH.Hash()) {
				s.Violate("c15-stored-square-differs", "AxisRoots", "%s: the stored square's data availability header differs from the header that was given", what)
				return
			}
			q4, _ := st.HasQ4ByHash(ctx, b.dah.Hash())
			if !empty && b.inside && !q4 {
				s.Violate("c15-window-block-without-parity", "store", "%s: stored without the parity quadrant", what)
			}
			if !empty && !b.inside && q4 {
				s.Violate("c15-archival-stores-parity-of-old-block", "store", "%s: stored with the parity quadrant", what)
			}
		}
	}
}

var _ = libshare.ShareSize
