package light

// W-LIGHT: deterministic simulation world for C03 (a light node calls a block
// available only after verifying its whole sample set). Real:
// ShareAvailability.SharesAvailable/Close, SamplingResult, Sessions, window
// check, autobatch+namespace datastore wrappers. Stub: shwap.Getter seam,
// datastore (SimDS), crypto/rand.Reader (tape-seeded stream).

import (
	"context"
	crand "crypto/rand"
	"errors"
	"fmt"
	"math"
	mrand "math/rand/v2"
	"sort"
	"strings"
	"sync"
	"testing"
	"time"

	libshare "github.com/celestiaorg/go-square/v4/share"
	"github.com/celestiaorg/nmt"
	"github.com/celestiaorg/rsmt2d"

	"github.com/celestiaorg/celestia-app/v9/pkg/da"

	"github.com/celestiaorg/celestia-node/header"
	"github.com/celestiaorg/celestia-node/internal/verifhdr"
	"github.com/celestiaorg/celestia-node/internal/verifsim"
	"github.com/celestiaorg/celestia-node/share"
	"github.com/celestiaorg/celestia-node/share/availability"
	"github.com/celestiaorg/celestia-node/share/shwap"
)

func TestVerifC03(t *testing.T) {
	verifsim.Main(t, verifsim.World{
		Prop: "C03", Name: "W-LIGHT",
		Run: func(s *verifsim.Sim) {
			old := crand.Reader
			defer func() { crand.Reader = old }()
			if s.ChooseW([]int{9, 1}, "world") == 0 {
				vsLightWorld(s)
			} else {
				vsLightDraws(s)
			}
			s.Finish()
		},
		Real: []string{"light.ShareAvailability (SharesAvailable, Close)", "light.SamplingResult / selectRandomSamples", "utils.Sessions", "availability.IsWithinWindow", "go-datastore autobatch + namespace wrappers"},
		Stub: []string{"shwap.Getter (contract-obeying seam)", "datastore (verifsim.SimDS)", "crypto/rand.Reader (tape-seeded stream)"},
	})
}

// tape-seeded byte stream standing in for crypto/rand.Reader
type vsRandReader struct{ r *mrand.ChaCha8 }

func (v *vsRandReader) Read(p []byte) (int, error) { return v.r.Read(p) }

func vsSeedRand(s *verifsim.Sim) *vsRandReader {
	var seed [32]byte
	for i := 0; i < 4; i++ {
		seed[i] = byte(s.Choose(256, "rand_seed"))
	}
	return &vsRandReader{r: mrand.NewChaCha8(seed)}
}

func vsFakeDAH(w int, tag byte) *da.DataAvailabilityHeader {
	mk := func(axis byte) [][]byte {
		out := make([][]byte, w)
		for i := range out {
			b := make([]byte, 90)
			b[0], b[1], b[2], b[89] = tag, axis, byte(i), 0x5a
			out[i] = b
		}
		return out
	}
	return &da.DataAvailabilityHeader{RowRoots: mk(1), ColumnRoots: mk(2)}
}

type vsGetCall struct {
	id     int
	gen    int
	height uint64
	root   string
	idxs   []shwap.SampleCoords
	resp   chan vsGetResp
}

type vsGetResp struct {
	served  map[shwap.SampleCoords]bool
	nothing bool
	err     error
}

type vsRootState struct {
	width   int
	drawn   map[shwap.SampleCoords]bool
	served  map[shwap.SampleCoords]bool // V: served since the set was drawn
	crashed bool                        // a crash happened since the last request for this root
}

type vsLight struct {
	s       *verifsim.Sim
	mu      sync.Mutex
	gen     int
	pending []*vsGetCall
	nextID  int
	roots   map[string]*vsRootState
	count   int
	active  map[uint64]int // live getter calls per height (current generation)
}

type vsGetter struct {
	w   *vsLight
	gen int
}

func vsKey(c shwap.SampleCoords) int { return c.Row*100000 + c.Col }

func vsSorted(m map[shwap.SampleCoords]bool) []shwap.SampleCoords {
	out := make([]shwap.SampleCoords, 0, len(m))
	for c, ok := range m {
		if ok {
			out = append(out, c)
		}
	}
	sort.Slice(out, func(i, j int) bool { return vsKey(out[i]) < vsKey(out[j]) })
	return out
}

func (g vsGetter) GetSamples(ctx context.Context, h *header.ExtendedHeader, idxs []shwap.SampleCoords) ([]shwap.Sample, error) {
	w := g.w
	s := w.s
	w.mu.Lock()
	live := g.gen == w.gen
	root := h.DAH.String()
	rs := w.roots[root]
	if live && rs != nil {
		width := rs.width
		area := width * width
		req := map[shwap.SampleCoords]bool{}
		for _, c := range idxs {
			if c.Row < 0 || c.Col < 0 || c.Row >= width || c.Col >= width {
				s.Violate("c03-coordinate-outside-square", "GetSamples", "height %d: requested coordinate %+v outside the %dx%d extended square", h.Height(), c, width, width)
			}
			if req[c] {
				s.Violate("c03-duplicate-coordinate", "GetSamples", "height %d: coordinate %+v requested twice in one call: %v", h.Height(), c, idxs)
			}
			req[c] = true
		}
		want := min(w.count, area)
		fresh := func() bool { return len(req) == want }
		switch {
		case rs.drawn == nil:
			if !fresh() {
				s.Violate("c03-wrong-sample-count", "first-request", "height %d (width %d, configured %d samples): first request asks for %d distinct coordinates, want %d", h.Height(), width, w.count, len(req), want)
			}
			rs.drawn, rs.served = req, map[shwap.SampleCoords]bool{}
		default:
			// expected: the drawn set minus what was served
			exact := true
			for c := range rs.drawn {
				if !rs.served[c] && !req[c] {
					exact = false
				}
			}
			for c := range req {
				if !rs.drawn[c] || rs.served[c] {
					exact = false
				}
			}
			switch {
			case exact:
			case rs.crashed:
				// after a crash the durable state may be an older one (fewer coordinates credited,
				// never more) or gone (complete fresh draw)
				older := true
				for c := range rs.drawn {
					if !rs.served[c] && !req[c] {
						older = false // a pending coordinate was dropped
					}
				}
				for c := range req {
					if !rs.drawn[c] {
						older = false
					}
				}
				if older {
					for c := range req {
						delete(rs.served, c)
					}
				} else if fresh() {
					rs.drawn, rs.served = req, map[shwap.SampleCoords]bool{}
					s.Probe("fresh-draw-after-crash")
				} else {
					s.Violate("c03-request-mismatch", "after-crash", "height %d after a crash: requested %v; drawn set %v, served %v: neither the pending coordinates (possibly of an older persisted state) nor a complete fresh draw", h.Height(), vsSorted(req), vsSorted(rs.drawn), vsSorted(rs.served))
				}
			default:
				s.Violate("c03-request-mismatch", "retry", "height %d: requested %v but drawn set is %v and served so far %v (a retry must ask for exactly the pending coordinates)", h.Height(), vsSorted(req), vsSorted(rs.drawn), vsSorted(rs.served))
			}
		}
		rs.crashed = false
		w.active[h.Height()]++
		if w.active[h.Height()] > 1 {
			s.Violate("c03-concurrent-sessions", "GetSamples", "two sampling sessions for height %d are inside the getter at the same time", h.Height())
		}
	}
	w.nextID++
	c := &vsGetCall{id: w.nextID, gen: g.gen, height: h.Height(), root: root, idxs: append([]shwap.SampleCoords(nil), idxs...), resp: make(chan vsGetResp, 1)}
	w.pending = append(w.pending, c)
	w.mu.Unlock()

	finish := func() {
		w.mu.Lock()
		for i, p := range w.pending {
			if p == c {
				w.pending = append(w.pending[:i], w.pending[i+1:]...)
				break
			}
		}
		if live && g.gen == w.gen && w.roots[root] != nil {
			w.active[h.Height()]--
		}
		w.mu.Unlock()
	}
	select {
	case r := <-c.resp:
		finish()
		if r.nothing {
			return nil, r.err
		}
		out := make([]shwap.Sample, len(idxs))
		for i, ix := range idxs {
			if r.served[ix] {
				out[i] = shwap.Sample{Share: libshare.TailPaddingShare(), Proof: &nmt.Proof{}}
			}
		}
		return out, r.err
	case <-ctx.Done():
		finish()
		return nil, ctx.Err()
	}
}

func (g vsGetter) GetEDS(context.Context, *header.ExtendedHeader) (*rsmt2d.ExtendedDataSquare, error) {
	return nil, shwap.ErrOperationNotSupported
}
func (g vsGetter) GetRow(context.Context, *header.ExtendedHeader, int) (shwap.Row, error) {
	return shwap.Row{}, shwap.ErrOperationNotSupported
}
func (g vsGetter) GetNamespaceData(context.Context, *header.ExtendedHeader, libshare.Namespace) (shwap.NamespaceData, error) {
	return nil, shwap.ErrOperationNotSupported
}
func (g vsGetter) GetRangeNamespaceData(context.Context, *header.ExtendedHeader, int, int) (shwap.RangeNamespaceData, error) {
	return shwap.RangeNamespaceData{}, shwap.ErrOperationNotSupported
}

func (w *vsLight) livePending() []*vsGetCall {
	w.mu.Lock()
	defer w.mu.Unlock()
	var out []*vsGetCall
	for _, p := range w.pending {
		if p.gen == w.gen {
			out = append(out, p)
		}
	}
	sort.Slice(out, func(i, j int) bool { return out[i].id < out[j].id })
	return out
}

// release answers one getter call: a tape-chosen subset of the canonically
// sorted requested coordinates is served.
func (w *vsLight) release(c *vsGetCall, kind int) {
	s := w.s
	resp := vsGetResp{served: map[shwap.SampleCoords]bool{}}
	sorted := append([]shwap.SampleCoords(nil), c.idxs...)
	sort.Slice(sorted, func(i, j int) bool { return vsKey(sorted[i]) < vsKey(sorted[j]) })
	switch kind {
	case 0: // everything, no error
		for _, ix := range sorted {
			resp.served[ix] = true
		}
	case 1, 2, 3, 4: // subset with nil / generic / deadline / cancel error
		mode := s.Choose(3, "subset_mode")
		for i, ix := range sorted {
			switch mode {
			case 0:
				if s.Choose(2, "serve") == 1 {
					resp.served[ix] = true
				}
			case 1: // all but one
				if i != 0 {
					resp.served[ix] = true
				}
			case 2: // none
			}
		}
		resp.err = []error{nil, errors.New("verif: getter failed"), context.DeadlineExceeded, fmt.Errorf("verif: stream: %w", context.Canceled)}[kind-1]
	case 5: // nothing at all
		resp.nothing = true
		resp.err = shwap.ErrNotFound
	}
	w.mu.Lock()
	if rs := w.roots[c.root]; rs != nil && c.gen == w.gen {
		for ix := range resp.served {
			rs.served[ix] = true
		}
	}
	w.mu.Unlock()
	c.resp <- resp
}

func vsLightWorld(s *verifsim.Sim) {

	crand.Reader = vsSeedRand(s)
	w := &vsLight{s: s, roots: map[string]*vsRootState{}, active: map[uint64]int{}}
	w.count = []int{1, 2, 4, 5, 16, 20, 40, 70}[s.Choose(8, "sample_count")]
	nheights := s.Range(1, 3, "nheights")
	ncallers := s.Range(1, 4, "ncallers")
	faultFree := s.Chance(1, 8, "fault_free")
	s.Cfg["world"], s.Cfg["sample_count"], s.Cfg["nheights"], s.Cfg["ncallers"], s.Cfg["fault_free"] = "availability", w.count, nheights, ncallers, faultFree

	type hinfo struct {
		h     *header.ExtendedHeader
		width int
		kind  string // "normal", "empty", "outside"
	}
	var hs []hinfo
	var widths []int
	for i := 0; i < nheights; i++ {
		width := []int{2, 4, 8, 16}[s.ChooseW([]int{3, 3, 2, 1}, "eds_width")]
		kind := []string{"normal", "empty", "outside"}[s.ChooseW([]int{10, 1, 1}, "header_kind")]
		t := time.Now().Add(-time.Duration(s.Range(0, 3, "age_h")) * time.Hour)
		var dah *da.DataAvailabilityHeader
		switch kind {
		case "empty":
			dah = share.EmptyEDSRoots()
		case "outside":
			t = time.Now().Add(-availability.SamplingWindow - time.Hour)
			dah = vsFakeDAH(width, byte(i+1))
		default:
			dah = vsFakeDAH(width, byte(i+1))
		}
		h := verifhdr.MakeHeader(uint64(10+i), t, dah)
		hs = append(hs, hinfo{h: h, width: width, kind: kind})
		widths = append(widths, width)
		if kind != "empty" {
			w.roots[dah.String()] = &vsRootState{width: width}
		}
	}
	s.Cfg["widths"] = widths

	ds := verifsim.NewSimDS()
	var la *ShareAvailability
	var handle *verifsim.DSHandle
	newInstance := func() {
		w.mu.Lock()
		w.gen++
		gen := w.gen
		w.active = map[uint64]int{}
		if gen > 1 && !faultFree && s.Chance(1, 8, "sample_amount_raised") {
			// the operator restarts the node with a larger sample amount: a result stored under the
			// smaller amount must not make a block available (the statement speaks of the configured
			// amount); whether the node then refuses or samples afresh is not judged
			var bigger []int
			for _, c := range []int{2, 4, 5, 16, 20, 40, 70} {
				if c > w.count {
					bigger = append(bigger, c)
				}
			}
			if len(bigger) > 0 {
				w.count = bigger[s.Choose(len(bigger), "new_sample_count")]
				s.Fault("sample-amount-raised")
			}
		}
		w.mu.Unlock()
		handle = ds.Handle(fmt.Sprintf("light%d", gen))
		la = NewShareAvailability(vsGetter{w, gen}, handle, nil, WithSampleAmount(uint(w.count)))
	}
	newInstance()

	type callerOp struct {
		hi      int
		timeout time.Duration
	}
	type running struct {
		name   string
		cancel context.CancelFunc
		gen    int
	}
	var cancels []*running
	instCtx, instCancel := context.WithCancel(context.Background())
	for ci := 0; ci < ncallers; ci++ {
		nops := s.Range(1, 6, "ncalls")
		ops := make([]callerOp, nops)
		for i := range ops {
			ops[i] = callerOp{hi: s.Choose(nheights, "height"), timeout: []time.Duration{0, 0, 30 * time.Second, 500 * time.Millisecond}[s.Choose(4, "deadline")]}
		}
		name := fmt.Sprintf("caller%d", ci)
		s.Go(name, func() {
			for _, o := range ops {
				hi := hs[o.hi]
				w.mu.Lock()
				gen := w.gen
				inst := la
				base := instCtx
				w.mu.Unlock()
				ctx, cancel := context.WithCancel(base)
				if o.timeout > 0 {
					ctx, cancel = context.WithTimeout(base, o.timeout)
				}
				r := &running{name: name, cancel: cancel, gen: gen}
				w.mu.Lock()
				cancels = append(cancels, r)
				w.mu.Unlock()
				// every call gets header objects of its own, as callers that load the header separately do
				hc := *hi.h
				dc := *hi.h.DAH
				hc.DAH = &dc
				err := inst.SharesAvailable(ctx, &hc)
				cancel()
				w.mu.Lock()
				for i, x := range cancels {
					if x == r {
						cancels = append(cancels[:i], cancels[i+1:]...)
						break
					}
				}
				stillLive := gen == w.gen
				rs := w.roots[hi.h.DAH.String()]
				if err == nil && hi.kind == "normal" && stillLive {
					switch {
					case rs.drawn == nil:
						s.Violate("c03-available-without-sampling", "SharesAvailable", "height %d reported available although no coordinate was ever requested", hi.h.Height())
					default:
						var missing []shwap.SampleCoords
						for c := range rs.drawn {
							if !rs.served[c] {
								missing = append(missing, c)
							}
						}
						want := min(w.count, hi.width*hi.width)
						if len(missing) > 0 || len(rs.served) < want {
							s.Violate("c03-available-with-pending", "SharesAvailable", "height %d (width %d, %d samples configured) reported available but only %d coordinates were served with a valid sample; drawn %v, served %v, never served %v",
								hi.h.Height(), hi.width, w.count, len(rs.served), vsSorted(rs.drawn), vsSorted(rs.served), missing)
						}
					}
				}
				w.mu.Unlock()
				s.Note("%s: SharesAvailable(h=%d %s w=%d) -> %v", name, hi.h.Height(), hi.kind, hi.width, err)
				s.Yield(name + " next")
			}
		})
	}

	nsteps := s.Range(10, 80, "nsteps")
	for step := 0; step < nsteps && !s.Violated(); step++ {
		ps := s.Settle()
		if len(s.Unfinished()) == 0 {
			break
		}
		alts := s.TaskAlts(ps, 12)
		for _, c := range w.livePending() {
			c := c
			alts = append(alts, verifsim.Alt{Label: fmt.Sprintf("get h%d#%d all", c.height, len(c.idxs)), Weight: 8, Do: func() { w.release(c, 0) }})
			if !faultFree {
				for k, nm := range []string{"partial", "partial+err", "partial+deadline", "partial+cancel", "nothing"} {
					k := k
					alts = append(alts, verifsim.Alt{Label: fmt.Sprintf("get h%d#%d %s", c.height, len(c.idxs), nm), Weight: 2, Do: func() { s.Fault("getter-" + nm); w.release(c, k+1) }})
				}
			}
		}
		if !faultFree {
			w.mu.Lock()
			for _, r := range cancels {
				r := r
				if r.gen == w.gen {
					alts = append(alts, verifsim.Alt{Label: "cancel " + r.name, Weight: 1, Do: func() { s.Fault("caller-cancel"); r.cancel() }})
				}
			}
			w.mu.Unlock()
			alts = append(alts, verifsim.Alt{Label: "graceful restart", Weight: 1, Do: func() {
				s.Fault("graceful-restart")
				old := la
				// callers of the old instance are cancelled, the instance is closed (flush), a new one starts
				instCancel()
				// only the calls in flight wind down; callers between two calls wait for the new instance
				s.DrainIf(500, func(l string) bool { return !strings.HasSuffix(l, " next") && !strings.HasPrefix(l, "start caller") })
				ctx, cancel := context.WithTimeout(context.Background(), time.Minute)
				if err := old.Close(ctx); err != nil {
					s.Note("Close: %v", err)
				}
				cancel()
				instCtx, instCancel = context.WithCancel(context.Background())
				newInstance()
			}})
			alts = append(alts, verifsim.Alt{Label: "crash", Weight: 1, Do: func() {
				s.Fault("crash")
				handle.Kill()
				w.mu.Lock()
				for _, rs := range w.roots {
					rs.crashed = true
				}
				w.mu.Unlock()
				oldCancel := instCancel
				instCtx, instCancel = context.WithCancel(context.Background())
				newInstance() // bumps the generation first: the dying callers no longer count
				oldCancel()
			}})
		}
		alts = append(alts, s.StallAlt([]time.Duration{time.Millisecond, time.Second, 40 * time.Second}[s.Choose(3, "stall_len")], 2))
		s.Pick("step", alts)
	}
	if s.Violated() {
		return
	}
	// end phase: every remaining getter call is served completely; every caller must return
	for i := 0; i < 400; i++ {
		s.Drain(500)
		p := w.livePending()
		if len(p) == 0 {
			break
		}
		w.release(p[0], 0)
	}
	s.Drain(500)
	if un := s.Unfinished(); len(un) > 0 {
		instCancel()
		s.Drain(500)
		if un2 := s.Unfinished(); len(un2) > 0 {
			rep, _ := s.BlockedReport()
			s.Violate("c03-caller-never-returns", "SharesAvailable", "callers %v did not return although every getter call was answered and their contexts were cancelled; %s", un2, rep)
		} else {
			s.Violate("c03-caller-stuck-until-cancel", "SharesAvailable", "callers %v returned only after cancellation although every getter call had been answered", un)
		}
	}
	instCancel()
}

// vsLightDraws: distribution of freshly drawn coordinate sets for one
// (width, count) cell, with the tape-seeded stream as the only randomness.
func vsLightDraws(s *verifsim.Sim) {
	rd := vsSeedRand(s)
	crand.Reader = rd
	width := []int{2, 4, 8, 16, 64, 256, 512}[s.Choose(7, "eds_width")]
	count := []int{1, 3, 4, 16, 20}[s.Choose(5, "sample_count")]
	area := width * width
	eff := min(count, area)
	n := int(math.Ceil(45 * float64(area) / float64(eff))) // expected hits per cell >= 45: P(some cell never drawn) < 1e-16
	wide := width > 16
	if wide {
		// wide squares (up to the largest extended width the network allows): too many cells to see each
		// one drawn; the square is cut into 8x8 bands instead, each must be hit (expected hits per band >= 60)
		n = int(math.Ceil(60 * 64 / float64(eff)))
	}
	bands := map[[2]int]int{}
	s.Cfg["world"], s.Cfg["width"], s.Cfg["count"], s.Cfg["draws"] = "distribution", width, count, n
	cells := map[shwap.SampleCoords]int{}
	quad := [4]int{}
	for i := 0; i < n; i++ {
		r := NewSamplingResult(width, count)
		if len(r.Available) != 0 {
			s.Violate("c03-fresh-draw-has-available", "NewSamplingResult", "fresh sampling result already lists %d available coordinates", len(r.Available))
		}
		seen := map[shwap.SampleCoords]bool{}
		for _, c := range r.Remaining {
			if c.Row < 0 || c.Col < 0 || c.Row >= width || c.Col >= width {
				s.Violate("c03-coordinate-outside-square", "NewSamplingResult", "drawn coordinate %+v outside %dx%d", c, width, width)
			}
			if seen[c] {
				s.Violate("c03-duplicate-coordinate", "NewSamplingResult", "coordinate %+v drawn twice", c)
			}
			seen[c] = true
			cells[c]++
			bands[[2]int{c.Row * 8 / width, c.Col * 8 / width}]++
			q := 0
			if c.Row >= width/2 {
				q += 2
			}
			if c.Col >= width/2 {
				q++
			}
			quad[q]++
		}
		if len(seen) != eff {
			s.Violate("c03-wrong-sample-count", "NewSamplingResult", "width %d count %d: drew %d distinct coordinates, want %d", width, count, len(seen), eff)
		}
	}
	if wide && len(bands) != 64 {
		s.Violate("c03-not-whole-square", "distribution-bands", "width %d count %d: after %d draws only %d of the 64 bands (8x8) of the extended square were ever drawn from", width, count, n, len(bands))
	}
	if !wide && len(cells) != area {
		s.Violate("c03-not-whole-square", "distribution", "width %d count %d: after %d draws only %d of %d cells of the extended square were ever drawn", width, count, n, len(cells), area)
	}
	tot := float64(n * eff)
	sigma := math.Sqrt(tot * 0.25 * 0.75)
	for q, c := range quad {
		if math.Abs(float64(c)-tot/4) > 6*sigma+1 {
			s.Violate("c03-quadrant-bias", "distribution", "width %d count %d: quadrant %d received %d of %d drawn coordinates (expected %.0f +- %.0f)", width, count, q, c, int(tot), tot/4, 6*sigma)
		}
	}
	// the coordinates depend on the random source and on nothing else
	if eff < area {
		draw := func(seed byte) map[shwap.SampleCoords]bool {
			var sd [32]byte
			sd[0] = seed
			crand.Reader = &vsRandReader{r: mrand.NewChaCha8(sd)}
			m := map[shwap.SampleCoords]bool{}
			for i := 0; i < 8; i++ {
				for _, c := range NewSamplingResult(width, count).Remaining {
					m[shwap.SampleCoords{Row: c.Row + 1000*i, Col: c.Col}] = true
				}
			}
			return m
		}
		a, a2, b := draw(1), draw(1), draw(2)
		same := func(x, y map[shwap.SampleCoords]bool) bool {
			if len(x) != len(y) {
				return false
			}
			for k := range x {
				if !y[k] {
					return false
				}
			}
			return true
		}
		if !same(a, a2) {
			s.Violate("c03-draw-depends-on-more-than-rand", "distribution", "the same random stream produced different coordinate sets")
		}
		if same(a, b) && area > 4 {
			s.Violate("c03-draw-ignores-rand", "distribution", "two different random streams produced identical coordinate sets (width %d count %d)", width, count)
		}
	}
}
