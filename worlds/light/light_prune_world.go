package light

// W-PRUNER-LIGHT: the light node's side of C14. Real: light.ShareAvailability
// (SharesAvailable, Prune, sessions, sampling result bookkeeping). Stub:
// shwap.Getter seam that, like the bitswap getter of a light node, keeps every
// sample it hands out in the blockstore; in-memory blockstore and datastore.
//
// What is judged: Prune(h) "removes all data SharesAvailable might have
// created" - when the last operation invoked for a height is a Prune that
// reported success, neither the sampling result nor any sample block of that
// height is left once everything has come to rest, however the Prune
// overlapped with sampling sessions of that height.

import (
	"context"
	"errors"
	"fmt"
	"sort"
	"sync"
	"testing"
	"time"

	"github.com/ipfs/boxo/blockstore"
	blocks "github.com/ipfs/go-block-format"
	"github.com/ipfs/go-cid"
	"github.com/ipfs/go-datastore"
	dssync "github.com/ipfs/go-datastore/sync"

	libshare "github.com/celestiaorg/go-square/v4/share"
	"github.com/celestiaorg/nmt"
	"github.com/celestiaorg/rsmt2d"

	"github.com/celestiaorg/celestia-node/header"
	"github.com/celestiaorg/celestia-node/internal/verifhdr"
	"github.com/celestiaorg/celestia-node/internal/verifsim"
	"github.com/celestiaorg/celestia-node/share/availability"
	"github.com/celestiaorg/celestia-node/share/shwap"
	"github.com/celestiaorg/celestia-node/share/shwap/p2p/bitswap"
)

func TestVerifC14Light(t *testing.T) {
	verifsim.Main(t, verifsim.World{
		Prop: "C14", Name: "W-PRUNER-LIGHT",
		Run:  func(s *verifsim.Sim) { vsLightPrune(s); s.Finish() },
		Real: []string{"light.ShareAvailability (SharesAvailable, Prune)", "utils.Sessions", "go-datastore autobatch + namespace wrappers", "boxo blockstore over a map datastore"},
		Stub: []string{"shwap.Getter (seam that stores handed-out samples in the blockstore, as the light node's bitswap getter does)"},
	})
}

type vsPGCall struct {
	id     int
	height uint64
	idxs   []shwap.SampleCoords
	width  int
	resp   chan int
}

type vsPruneGetter struct {
	mu      sync.Mutex
	bs      blockstore.Blockstore
	pending []*vsPGCall
	nextID  int
	stored  map[uint64][]cid.Cid
}

func (g *vsPruneGetter) GetSamples(ctx context.Context, h *header.ExtendedHeader, idxs []shwap.SampleCoords) ([]shwap.Sample, error) {
	g.mu.Lock()
	g.nextID++
	c := &vsPGCall{id: g.nextID, height: h.Height(), idxs: append([]shwap.SampleCoords(nil), idxs...), width: len(h.DAH.RowRoots), resp: make(chan int, 1)}
	g.pending = append(g.pending, c)
	g.mu.Unlock()
	var kind int
	select {
	case kind = <-c.resp:
	case <-ctx.Done():
		g.drop(c)
		return nil, ctx.Err()
	}
	g.drop(c)
	out := make([]shwap.Sample, len(idxs))
	for i, ix := range idxs {
		if kind == 2 || (kind == 1 && i%2 == 1) {
			continue // not served
		}
		blk, err := bitswap.NewEmptySampleBlock(h.Height(), ix, c.width)
		if err != nil {
			panic(err)
		}
		b, err := blocks.NewBlockWithCid([]byte(fmt.Sprintf("sample %d %d %d", h.Height(), ix.Row, ix.Col)), blk.CID())
		if err != nil {
			panic(err)
		}
		if err := g.bs.Put(ctx, b); err != nil {
			panic(err)
		}
		g.mu.Lock()
		g.stored[h.Height()] = append(g.stored[h.Height()], blk.CID())
		g.mu.Unlock()
		out[i] = shwap.Sample{Share: libshare.TailPaddingShare(), Proof: &nmt.Proof{}}
	}
	if kind != 0 {
		return out, errors.New("verif: some samples could not be retrieved")
	}
	return out, nil
}

func (g *vsPruneGetter) drop(c *vsPGCall) {
	g.mu.Lock()
	defer g.mu.Unlock()
	for i, p := range g.pending {
		if p == c {
			g.pending = append(g.pending[:i], g.pending[i+1:]...)
			return
		}
	}
}

func (g *vsPruneGetter) live() []*vsPGCall {
	g.mu.Lock()
	defer g.mu.Unlock()
	out := append([]*vsPGCall(nil), g.pending...)
	sort.Slice(out, func(i, j int) bool { return out[i].id < out[j].id })
	return out
}

func (g *vsPruneGetter) GetEDS(context.Context, *header.ExtendedHeader) (*rsmt2d.ExtendedDataSquare, error) {
	return nil, shwap.ErrOperationNotSupported
}
func (g *vsPruneGetter) GetRow(context.Context, *header.ExtendedHeader, int) (shwap.Row, error) {
	return shwap.Row{}, shwap.ErrOperationNotSupported
}
func (g *vsPruneGetter) GetNamespaceData(context.Context, *header.ExtendedHeader, libshare.Namespace) (shwap.NamespaceData, error) {
	return nil, shwap.ErrOperationNotSupported
}
func (g *vsPruneGetter) GetRangeNamespaceData(context.Context, *header.ExtendedHeader, int, int) (shwap.RangeNamespaceData, error) {
	return shwap.RangeNamespaceData{}, shwap.ErrOperationNotSupported
}

type vsPruneOp struct {
	prune bool
	seq   int
	done  bool
	err   error
}

func vsLightPrune(s *verifsim.Sim) {
	ctx := context.Background()
	bs := blockstore.NewBlockstore(dssync.MutexWrap(datastore.NewMapDatastore()))
	ds := dssync.MutexWrap(datastore.NewMapDatastore())
	g := &vsPruneGetter{bs: bs, stored: map[uint64][]cid.Cid{}}
	count := s.Range(1, 6, "sample_amount")
	la := NewShareAvailability(g, ds, bs, WithSampleAmount(uint(count)))
	nh := s.Range(1, 2, "heights")
	hdrs := map[uint64]*header.ExtendedHeader{}
	for h := uint64(1); h <= uint64(nh); h++ {
		w := []int{2, 4, 8}[s.Choose(3, "width")]
		// just inside the sampling window: sampling is still allowed while the pruner is about to get there
		hdrs[h] = verifhdr.MakeHeader(h, time.Now().Add(-availability.SamplingWindow+time.Minute), vsFakeDAH(w, byte(h)))
	}
	last := map[uint64]*vsPruneOp{}
	// Sessions of one height are handed over in no particular order when several operations wait, so the
	// order of invocation is the order of the sessions only while at most one operation waits behind the
	// one that holds the session: no third operation is started on a height while two are outstanding.
	outstanding := map[uint64]int{}
	seq := 0
	nsteps := s.Range(2, 14, "nsteps")
	running := 0
	for step := 0; step < nsteps && !s.Violated(); step++ {
		ps := s.Settle()
		alts := s.TaskAlts(ps, 6)
		if running < 4 {
			for h := uint64(1); h <= uint64(nh); h++ {
				h := h
				if outstanding[h] >= 2 {
					continue
				}
				alts = append(alts, verifsim.Alt{Label: fmt.Sprintf("sample height %d", h), Weight: 4, Do: func() {
					seq++
					op := &vsPruneOp{seq: seq}
					last[h] = op
					running++
					outstanding[h]++
					cctx, cancel := context.WithTimeout(ctx, time.Duration(1+s.Choose(3, "deadline"))*time.Minute)
					s.Spawn(fmt.Sprintf("sample-%d", h), func() {
						defer cancel()
						op.err = la.SharesAvailable(cctx, hdrs[h])
						op.done = true
						running--
						outstanding[h]--
					})
				}})
				alts = append(alts, verifsim.Alt{Label: fmt.Sprintf("prune height %d", h), Weight: 3, Do: func() {
					seq++
					op := &vsPruneOp{prune: true, seq: seq}
					last[h] = op
					running++
					outstanding[h]++
					s.Spawn(fmt.Sprintf("prune-%d", h), func() {
						op.err = la.Prune(ctx, hdrs[h])
						op.done = true
						running--
						outstanding[h]--
					})
				}})
			}
		}
		for _, c := range g.live() {
			c := c
			lbl := fmt.Sprintf("getter call %d (height %d)", c.id, c.height)
			alts = append(alts, verifsim.Alt{Label: lbl + " serves all", Weight: 5, Do: func() { c.resp <- 0 }})
			alts = append(alts, verifsim.Alt{Label: lbl + " serves some", Weight: 2, Do: func() { s.Fault("partial-retrieval"); c.resp <- 1 }})
			alts = append(alts, verifsim.Alt{Label: lbl + " serves nothing", Weight: 1, Do: func() { s.Fault("failed-retrieval"); c.resp <- 2 }})
		}
		alts = append(alts, s.StallAlt(30*time.Second, 1))
		s.Pick("step", alts)
	}
	// come to rest: every getter call is answered
	for i := 0; i < 200; i++ {
		s.Settle()
		l := g.live()
		if len(l) == 0 {
			break
		}
		l[0].resp <- 0
	}
	s.Settle()
	if s.Violated() {
		return
	}
	for h := uint64(1); h <= uint64(nh); h++ {
		op := last[h]
		if op == nil || !op.prune {
			continue
		}
		if !op.done {
			s.Violate("c14-prune-hangs", "light.Prune", "Prune(height %d) has not returned although every sampling session of the height has ended", h)
			return
		}
		if op.err != nil {
			continue // reported as failed: the pruner service records and retries it
		}
		if _, err := la.ds.Get(ctx, datastoreKeyForRoot(hdrs[h].DAH)); !errors.Is(err, datastore.ErrNotFound) {
			s.Violate("c14-light-data-left-after-prune", "sampling-result", "Prune(height %d) was the last operation on the height and reported success, but the sampling result is still stored (err=%v)", h, err)
			return
		}
		g.mu.Lock()
		cids := append([]cid.Cid(nil), g.stored[h]...)
		g.mu.Unlock()
		for _, c := range cids {
			if has, _ := bs.Has(ctx, c); has {
				s.Violate("c14-light-data-left-after-prune", "sample-block", "Prune(height %d) was the last operation on the height and reported success, but a sample block of that height is still in the blockstore", h)
				return
			}
		}
	}
}
