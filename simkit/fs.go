package verifsim

import (
	"errors"
	"io"
	"io/fs"
	"os"
	"path/filepath"
	"sync"
	"sync/atomic"
	"syscall"
)

// File-system shims. In rewritten packages os.OpenFile/Open/Create/Remove/
// Link/Symlink/Stat/Mkdir become FS<Name> and *os.File becomes *File. Without
// an installed FSControl they are plain pass-throughs to package os.
//
// Every call that changes the file system (create, write, close of a written
// file, link, symlink, remove, mkdir) is an *effect*: it is counted, can be a
// yield point of the scheduler (so that effects of concurrent writers
// interleave under the tape), and can be failed with an injected errno.
// Opens for reading and reads are *accesses*: optional yield points and
// optional injected read errors.

// FSControl is installed by a world for the duration of a run.
type FSControl struct {
	mu sync.Mutex
	// YieldEffects / YieldAccesses make the respective calls yield points.
	YieldEffects  bool
	YieldAccesses bool
	// Fail, if set, is asked before every effect/access; a non-nil error is returned by the call
	// instead of performing it.
	Fail func(kind, path string) error
	// Effects counts effects by kind.
	Effects map[string]int
	NEffect int
	// Log keeps the sequence of effects (kind + base name) of the run, bounded.
	Log []string
	// paused disables yielding and failing (e.g. while the driver inspects a crash image).
	paused atomic.Bool
}

var fsCtl atomic.Pointer[FSControl]

// InstallFS activates c (nil deactivates).
func InstallFS(c *FSControl) {
	if c != nil && c.Effects == nil {
		c.Effects = map[string]int{}
	}
	fsCtl.Store(c)
}

// Pause suspends yielding, failing and counting until the returned function is called.
func (c *FSControl) Pause() func() {
	c.paused.Store(true)
	return func() { c.paused.Store(false) }
}

func fsPoint(kind, path string, effect bool) error { return fsPointX(kind, path, effect, false) }

// fsPointX: noFail suppresses error injection for a call the real file system would refuse anyway
// (exclusive create or link onto an existing name answers EEXIST whatever else is wrong with the disk).
func fsPointX(kind, path string, effect, noFail bool) error {
	c := fsCtl.Load()
	if c == nil || c.paused.Load() {
		return nil
	}
	base := filepath.Base(path)
	if effect {
		c.mu.Lock()
		c.Effects[kind]++
		c.NEffect++
		if len(c.Log) < 400 {
			c.Log = append(c.Log, kind+" "+base)
		}
		c.mu.Unlock()
	}
	if (effect && c.YieldEffects) || (!effect && c.YieldAccesses) {
		Yield("fs." + kind + " " + fsLabel(path))
	}
	if c.Fail != nil && !noFail {
		if err := c.Fail(kind, path); err != nil {
			return &fs.PathError{Op: kind, Path: path, Err: err}
		}
	}
	return nil
}

func fsExists(path string) bool { _, err := os.Lstat(path); return err == nil }

// fsLabel is a canonical short name of a path (parent dir + base), stable across scratch dirs.
func fsLabel(path string) string {
	return filepath.Base(filepath.Dir(path)) + "/" + filepath.Base(path)
}

// ErrNoSpace and ErrIO are the injectable errnos.
var (
	ErrNoSpace error = syscall.ENOSPC
	ErrIO      error = syscall.EIO
)

// File wraps *os.File.
type File struct {
	f       *os.File
	path    string
	written bool
	forWr   bool
}

func (f *File) Name() string { return f.f.Name() }
func (f *File) Fd() uintptr  { return f.f.Fd() }

func (f *File) Write(p []byte) (int, error) {
	if err := fsPoint("write", f.path, true); err != nil {
		return 0, err
	}
	f.written = true
	return f.f.Write(p)
}

func (f *File) WriteAt(p []byte, off int64) (int, error) {
	if err := fsPoint("write", f.path, true); err != nil {
		return 0, err
	}
	f.written = true
	return f.f.WriteAt(p, off)
}

func (f *File) WriteString(s string) (int, error) { return f.Write([]byte(s)) }

func (f *File) Read(p []byte) (int, error) {
	if err := fsPoint("read", f.path, false); err != nil {
		return 0, err
	}
	return f.f.Read(p)
}

func (f *File) ReadAt(p []byte, off int64) (int, error) {
	if err := fsPoint("read", f.path, false); err != nil {
		return 0, err
	}
	return f.f.ReadAt(p, off)
}

func (f *File) Seek(off int64, whence int) (int64, error) { return f.f.Seek(off, whence) }
func (f *File) Stat() (os.FileInfo, error)                { return f.f.Stat() }
func (f *File) Truncate(n int64) error                    { return f.f.Truncate(n) }

func (f *File) Sync() error {
	if err := fsPoint("sync", f.path, true); err != nil {
		return err
	}
	return f.f.Sync()
}

func (f *File) Close() error {
	if f.forWr {
		if err := fsPoint("close", f.path, true); err != nil {
			_ = f.f.Close()
			return err
		}
	}
	return f.f.Close()
}

var (
	_ io.ReaderAt = (*File)(nil)
	_ io.Writer   = (*File)(nil)
)

func FSOpenFile(path string, flag int, perm os.FileMode) (*File, error) {
	creating := flag&os.O_CREATE != 0
	wr := flag&(os.O_WRONLY|os.O_RDWR) != 0
	kind := "open"
	if creating {
		kind = "create"
	}
	if err := fsPointX(kind, path, creating, creating && flag&os.O_EXCL != 0 && fsExists(path)); err != nil {
		return nil, err
	}
	f, err := os.OpenFile(path, flag, perm)
	if err != nil {
		return nil, err
	}
	return &File{f: f, path: path, forWr: wr}, nil
}

func FSOpen(path string) (*File, error) { return FSOpenFile(path, os.O_RDONLY, 0) }

func FSCreate(path string) (*File, error) {
	return FSOpenFile(path, os.O_RDWR|os.O_CREATE|os.O_TRUNC, 0o666)
}

func FSRemove(path string) error {
	if err := fsPoint("remove", path, true); err != nil {
		return err
	}
	return os.Remove(path)
}

func FSRemoveAll(path string) error {
	if err := fsPoint("remove", path, true); err != nil {
		return err
	}
	return os.RemoveAll(path)
}

func FSLink(oldname, newname string) error {
	if err := fsPointX("link", newname, true, fsExists(newname)); err != nil {
		return err
	}
	return os.Link(oldname, newname)
}

func FSSymlink(oldname, newname string) error {
	if err := fsPointX("symlink", newname, true, fsExists(newname)); err != nil {
		return err
	}
	return os.Symlink(oldname, newname)
}

func FSRename(oldpath, newpath string) error {
	if err := fsPoint("rename", newpath, true); err != nil {
		return err
	}
	return os.Rename(oldpath, newpath)
}

func FSStat(path string) (os.FileInfo, error) {
	if err := fsPoint("stat", path, false); err != nil {
		return nil, err
	}
	return os.Stat(path)
}

func FSLstat(path string) (os.FileInfo, error) { return os.Lstat(path) }

func FSMkdir(path string, perm os.FileMode) error {
	if err := fsPoint("mkdir", path, true); err != nil {
		return err
	}
	return os.Mkdir(path, perm)
}

func FSMkdirAll(path string, perm os.FileMode) error {
	if err := fsPoint("mkdir", path, true); err != nil {
		return err
	}
	return os.MkdirAll(path, perm)
}

func FSReadFile(path string) ([]byte, error) {
	if err := fsPoint("read", path, false); err != nil {
		return nil, err
	}
	return os.ReadFile(path)
}

func FSWriteFile(path string, data []byte, perm os.FileMode) error {
	if err := fsPoint("write", path, true); err != nil {
		return err
	}
	return os.WriteFile(path, data, perm)
}

func FSReadDir(path string) ([]os.DirEntry, error) { return os.ReadDir(path) }
func FSReadlink(path string) (string, error)       { return os.Readlink(path) }

// CopyTree copies a directory tree as a crash image: regular files by content
// (what the OS has, i.e. without user-space buffers), hard links between files
// of the tree preserved, symlinks recreated.
func CopyTree(src, dst string) error {
	type key struct{ dev, ino uint64 }
	seen := map[key]string{}
	return filepath.Walk(src, func(p string, info os.FileInfo, err error) error {
		if err != nil {
			return err
		}
		rel, _ := filepath.Rel(src, p)
		target := filepath.Join(dst, rel)
		switch {
		case info.IsDir():
			return os.MkdirAll(target, 0o755)
		case info.Mode()&os.ModeSymlink != 0:
			l, err := os.Readlink(p)
			if err != nil {
				return err
			}
			return os.Symlink(l, target)
		case info.Mode().IsRegular():
			if st, ok := info.Sys().(*syscall.Stat_t); ok && st.Nlink > 1 {
				k := key{uint64(st.Dev), st.Ino}
				if prev, ok := seen[k]; ok {
					return os.Link(prev, target)
				}
				seen[k] = target
			}
			b, err := os.ReadFile(p)
			if err != nil {
				return err
			}
			return os.WriteFile(target, b, info.Mode().Perm())
		}
		return nil
	})
}

// OpenFDsUnder lists the descriptors of this process that point below dir.
func OpenFDsUnder(dir string) []string {
	ents, err := os.ReadDir("/proc/self/fd")
	if err != nil {
		return nil
	}
	var out []string
	for _, e := range ents {
		l, err := os.Readlink(filepath.Join("/proc/self/fd", e.Name()))
		if err != nil {
			continue
		}
		if len(l) >= len(dir) && l[:len(dir)] == dir {
			out = append(out, l)
		}
	}
	return out
}

var errNotImplemented = errors.New("verifsim: not implemented")
