package verifsim

import "sync"

// muState is the simulated state of a mutex; guarded by Sim.mu.
type muState struct {
	owner    *Sim // simulation this state belongs to; a new run resets it
	writer   bool
	readers  int
	holder   string
	holderG  uint64
	rholders []rholder
}

type rholder struct {
	g     uint64
	label string
}

// of returns the state valid for simulation s (a mutex that outlives a run,
// e.g. a package-level one, starts every run unlocked).
func (st *muState) of(s *Sim) *muState {
	s.mu.Lock()
	if st.owner != s {
		*st = muState{owner: s}
	}
	s.mu.Unlock()
	return st
}

// simFor picks the simulation an operation belongs to: the active one, or - for goroutines of
// a run that is winding down after its driver returned - the simulation that last used the mutex.
func (st *muState) simFor() *Sim {
	if s := cur.Load(); s != nil {
		return s
	}
	return st.owner
}

// Mutex replaces sync.Mutex in rewritten packages: under a simulation every
// Lock is a scheduler decision, outside of one it is a plain sync.Mutex.
type Mutex struct {
	nat sync.Mutex
	st  muState
}

func (m *Mutex) Lock() {
	s := m.st.simFor()
	if s == nil {
		m.nat.Lock()
		return
	}
	s.park(&waiter{label: "lock@" + callerFunc(1), kind: wLock, mu: m.st.of(s)})
}

func (m *Mutex) TryLock() bool {
	s := m.st.simFor()
	if s == nil {
		return m.nat.TryLock()
	}
	st := m.st.of(s)
	s.Yield("trylock@" + callerFunc(1))
	s.mu.Lock()
	defer s.mu.Unlock()
	if st.writer || st.readers > 0 {
		return false
	}
	st.writer = true
	st.holder = "trylock"
	st.holderG = goid()
	return true
}

func (m *Mutex) Unlock() {
	s := m.st.simFor()
	if s == nil {
		m.nat.Unlock()
		return
	}
	st := m.st.of(s)
	s.mu.Lock()
	if !st.writer {
		s.mu.Unlock()
		panic("verifsim: unlock of unlocked Mutex")
	}
	st.writer = false
	st.holder = ""
	s.mu.Unlock()
}

// RWMutex replaces sync.RWMutex. Writer preference is not modelled: a reader
// may be admitted while a writer waits, which is indistinguishable from the
// reader having arrived first.
type RWMutex struct {
	nat sync.RWMutex
	st  muState
}

func (m *RWMutex) Lock() {
	s := m.st.simFor()
	if s == nil {
		m.nat.Lock()
		return
	}
	s.park(&waiter{label: "lock@" + callerFunc(1), kind: wLock, mu: m.st.of(s)})
}

func (m *RWMutex) Unlock() {
	s := m.st.simFor()
	if s == nil {
		m.nat.Unlock()
		return
	}
	st := m.st.of(s)
	s.mu.Lock()
	if !st.writer {
		s.mu.Unlock()
		panic("verifsim: unlock of unlocked RWMutex")
	}
	st.writer = false
	st.holder = ""
	s.mu.Unlock()
}

func (m *RWMutex) RLock() {
	s := m.st.simFor()
	if s == nil {
		m.nat.RLock()
		return
	}
	s.park(&waiter{label: "rlock@" + callerFunc(1), kind: wRLock, mu: m.st.of(s)})
}

func (m *RWMutex) RUnlock() {
	s := m.st.simFor()
	if s == nil {
		m.nat.RUnlock()
		return
	}
	st := m.st.of(s)
	s.mu.Lock()
	if st.readers <= 0 {
		s.mu.Unlock()
		panic("verifsim: RUnlock of unlocked RWMutex")
	}
	st.readers--
	g := goid()
	for i := len(st.rholders) - 1; i >= 0; i-- {
		if st.rholders[i].g == g || i == 0 {
			st.rholders = append(st.rholders[:i], st.rholders[i+1:]...)
			break
		}
	}
	s.mu.Unlock()
}

func (m *RWMutex) TryLock() bool {
	s := m.st.simFor()
	if s == nil {
		return m.nat.TryLock()
	}
	st := m.st.of(s)
	s.Yield("trylock@" + callerFunc(1))
	s.mu.Lock()
	defer s.mu.Unlock()
	if st.writer || st.readers > 0 {
		return false
	}
	st.writer = true
	st.holder = "trylock"
	st.holderG = goid()
	return true
}

func (m *RWMutex) TryRLock() bool {
	s := m.st.simFor()
	if s == nil {
		return m.nat.TryRLock()
	}
	st := m.st.of(s)
	s.mu.Lock()
	defer s.mu.Unlock()
	if st.writer {
		return false
	}
	st.readers++
	st.rholders = append(st.rholders, rholder{goid(), "tryrlock"})
	return true
}

// RLocker mirrors sync.RWMutex.RLocker.
func (m *RWMutex) RLocker() sync.Locker { return (*rlocker)(m) }

type rlocker RWMutex

func (r *rlocker) Lock()   { (*RWMutex)(r).RLock() }
func (r *rlocker) Unlock() { (*RWMutex)(r).RUnlock() }
