package verifsim

import (
	"fmt"
	"runtime"
	"runtime/debug"
	"sort"
	"strings"
	"sync"
	"sync/atomic"
	"testing/synctest"
	"time"
)

// cur is the simulation the process is currently running (one at a time).
var cur atomic.Pointer[Sim]

// Cur returns the active simulation or nil.
func Cur() *Sim { return cur.Load() }

// Violation is an oracle failure of the property under check.
type Violation struct {
	Clause string `json:"clause"`
	Sig    string `json:"sig"`
	Detail string `json:"detail"`
}

type waitKind int

const (
	wYield waitKind = iota
	wLock
	wRLock
)

type waiter struct {
	g     uint64 // goroutine id of the parked goroutine
	label string
	kind  waitKind
	mu    *muState
	gate  chan struct{}
	seq   uint64
	task  *Task
}

// Task is a client goroutine started through Sim.Go.
type Task struct {
	Name string
	done atomic.Bool
}

// Done reports whether the task function returned.
func (t *Task) Done() bool { return t.done.Load() }

// Sim is one simulated run: the tape, the token scheduler, counters.
type Sim struct {
	T *Tape
	// Prop is the property under check (VERIF_PROP); ViolateP reports only its clauses.
	Prop string
	// WriterPref models sync.RWMutex writer preference: while a writer is parked on a mutex, new
	// readers of that mutex are not admitted (the writer has already called Lock). With it off a
	// reader may overtake a parked writer (the writer has not reached Lock yet). Both are legal.
	WriterPref bool

	mu     sync.Mutex // protects everything below; never held while blocking
	parked []*waiter
	seq    uint64
	tasks  []*Task

	start    time.Time
	endNs    int64
	finished bool
	driverG  uint64
	Steps    int

	viol       *Violation
	Notes      []string
	Faults     map[string]int
	Probes     map[string]int
	Cfg        map[string]any
	nontrivial bool
}

func newSim(t *Tape) *Sim {
	return &Sim{T: t, start: time.Now(), driverG: goid(), Faults: map[string]int{}, Probes: map[string]int{}, Cfg: map[string]any{}}
}

// Now returns simulated nanoseconds since the start of the run.
func (s *Sim) Now() int64 { return int64(time.Since(s.start)) }

// Choose draws a value in [0,n); 0 is the benign default.
func (s *Sim) Choose(n int, label string) int {
	v := s.T.draw(n, nil)
	s.T.note(label, n, v, "", s.Now())
	return v
}

// ChooseW draws an index with the given generation weights.
func (s *Sim) ChooseW(weights []int, label string) int {
	v := s.T.draw(len(weights), weights)
	s.T.note(label, len(weights), v, "", s.Now())
	return v
}

// Chance is true with probability num/den when generating; false is benign.
func (s *Sim) Chance(num, den int, label string) bool {
	return s.ChooseW([]int{den - num, num}, label) == 1
}

// Range draws an integer in [lo,hi]; lo is benign.
func (s *Sim) Range(lo, hi int, label string) int {
	if hi <= lo {
		return lo
	}
	return lo + s.Choose(hi-lo+1, label)
}

// Fault counts a fault that actually fired.
func (s *Sim) Fault(kind string) {
	s.mu.Lock()
	s.Faults[kind]++
	s.nontrivial = true
	s.mu.Unlock()
}

// Probe counts a "rare branch reached" event.
func (s *Sim) Probe(name string) {
	s.mu.Lock()
	s.Probes[name]++
	s.mu.Unlock()
}

// Note records a free-text remark in the run log (never a violation).
func (s *Sim) Note(format string, a ...any) {
	s.mu.Lock()
	if len(s.Notes) < 200 {
		s.Notes = append(s.Notes, fmt.Sprintf("t=%v ", time.Duration(s.Now()))+fmt.Sprintf(format, a...))
	}
	s.mu.Unlock()
}

// Violate records the first oracle failure of the run.
func (s *Sim) Violate(clause, sig, format string, a ...any) {
	s.mu.Lock()
	if s.viol == nil {
		s.viol = &Violation{Clause: clause, Sig: sig, Detail: fmt.Sprintf(format, a...)}
	}
	s.mu.Unlock()
}

// Violated reports whether a violation has been recorded.
func (s *Sim) Violated() bool {
	s.mu.Lock()
	defer s.mu.Unlock()
	return s.viol != nil
}

// callerFunc returns the short function name skip frames above the caller.
func callerFunc(skip int) string {
	var pcs [8]uintptr
	n := runtime.Callers(skip+2, pcs[:])
	fr := runtime.CallersFrames(pcs[:n])
	for {
		f, more := fr.Next()
		name := f.Function
		if name != "" && !strings.Contains(name, "internal/verifsim.") {
			if i := strings.LastIndex(name, "/"); i >= 0 {
				name = name[i+1:]
			}
			return name
		}
		if !more {
			return "?"
		}
	}
}

// callerChain returns up to depth short function names above the verifsim
// frames, innermost first (used for lock-cycle signatures).
func callerChain(depth int) []string {
	var pcs [16]uintptr
	n := runtime.Callers(2, pcs[:])
	fr := runtime.CallersFrames(pcs[:n])
	var out []string
	for {
		f, more := fr.Next()
		name := f.Function
		if name != "" && !strings.Contains(name, "internal/verifsim.") && !strings.HasPrefix(name, "runtime.") {
			if i := strings.LastIndex(name, "/"); i >= 0 {
				name = name[i+1:]
			}
			out = append(out, name)
			if len(out) >= depth {
				return out
			}
		}
		if !more {
			return out
		}
	}
}

func (s *Sim) park(w *waiter) {
	w.gate = make(chan struct{})
	w.g = goid()
	if w.g == s.driverG {
		panic("verifsim: the scheduler driver goroutine reached a yield point (" + w.label + "); run such code in a task (Sim.Go)")
	}
	s.mu.Lock()
	s.seq++
	w.seq = s.seq
	s.parked = append(s.parked, w)
	s.mu.Unlock()
	<-w.gate
}

// Yield parks the calling goroutine until the scheduler picks it. It is the
// explicit yield point used by seams and harness client code.
func (s *Sim) Yield(label string) {
	if s == nil {
		return
	}
	s.park(&waiter{label: label, kind: wYield})
}

// Yield parks on the current simulation if there is one.
func Yield(label string) {
	if s := cur.Load(); s != nil {
		s.Yield(label)
	}
}

// Go starts a client task. The task parks immediately, so when it begins is a
// scheduler decision.
func (s *Sim) Go(name string, fn func()) *Task {
	t := &Task{Name: name}
	s.mu.Lock()
	s.tasks = append(s.tasks, t)
	s.mu.Unlock()
	go func() {
		defer t.done.Store(true)
		defer s.recoverTask(name)
		s.park(&waiter{label: "start " + name, kind: wYield, task: t})
		fn()
	}()
	return t
}

// Spawn starts a background goroutine of the world (e.g. a service loop of the
// code under test that the harness has to start itself). It runs at once, is
// not a client task, and a panic of the code under test inside it becomes a
// violation instead of killing the process.
func (s *Sim) Spawn(name string, fn func()) {
	go func() {
		defer s.recoverTask(name)
		fn()
	}()
}

// recoverTask turns a panic raised by code under test inside a client task
// into a violation (clause "panic"); a panic raised by the simulator kit or a
// harness file is re-raised (harness trouble, exit 2).
func (s *Sim) recoverTask(name string) {
	r := recover()
	if r == nil {
		return
	}
	stack := string(debug.Stack())
	fn, file := panicSite(stack)
	if strings.Contains(file, "/internal/verif") || strings.Contains(file, "zz_verif_") || fn == "" {
		panic(fmt.Sprintf("harness panic in task %s: %v\n%s", name, r, stack))
	}
	s.Violate("panic", fn, "task %s: code under test panicked: %v (at %s %s)", name, r, fn, file)
}

// panicSite returns the function and file:line that raised the panic, read
// from a stack captured inside the deferred recover.
func panicSite(stack string) (string, string) {
	lines := strings.Split(stack, "\n")
	for i := 0; i < len(lines); i++ {
		if !strings.HasPrefix(lines[i], "panic(") {
			continue
		}
		for j := i + 2; j+1 < len(lines); j += 2 {
			fn := lines[j]
			if strings.HasPrefix(fn, "runtime.") {
				continue
			}
			if k := strings.LastIndex(fn, "("); k > 0 {
				fn = fn[:k]
			}
			if k := strings.LastIndex(fn, "/"); k >= 0 {
				fn = fn[k+1:]
			}
			file := strings.TrimSpace(lines[j+1])
			if k := strings.Index(file, " +0x"); k > 0 {
				file = file[:k]
			}
			return fn, file
		}
	}
	return "", ""
}

// Parked is a snapshot entry of a parked goroutine.
type Parked struct {
	Label   string
	Enabled bool
	w       *waiter
}

func (w *waiter) enabledLocked(s *Sim) bool {
	switch w.kind {
	case wLock:
		return !w.mu.writer && w.mu.readers == 0
	case wRLock:
		if w.mu.writer {
			return false
		}
		if s.WriterPref {
			for _, o := range s.parked {
				if o.kind == wLock && o.mu == w.mu && o.seq < w.seq {
					return false
				}
			}
		}
		return true
	}
	return true
}

// Settle waits until every goroutine of the bubble is parked or durably
// blocked and returns the parked set, sorted canonically by label (ties by
// arrival).
func (s *Sim) Settle() []Parked {
	synctest.Wait()
	s.mu.Lock()
	defer s.mu.Unlock()
	out := make([]Parked, 0, len(s.parked))
	for _, w := range s.parked {
		out = append(out, Parked{Label: w.label, Enabled: w.enabledLocked(s), w: w})
	}
	sort.SliceStable(out, func(i, j int) bool {
		if out[i].Label != out[j].Label {
			return out[i].Label < out[j].Label
		}
		return out[i].w.seq < out[j].w.seq
	})
	return out
}

// Release lets one parked goroutine proceed (granting its lock if it waits
// for one) and waits for the system to settle again.
func (s *Sim) Release(p Parked) {
	s.mu.Lock()
	idx := -1
	for i, w := range s.parked {
		if w == p.w {
			idx = i
			break
		}
	}
	if idx < 0 {
		s.mu.Unlock()
		panic("verifsim: Release of a goroutine that is not parked: " + p.Label)
	}
	w := p.w
	if !w.enabledLocked(s) {
		s.mu.Unlock()
		panic("verifsim: Release of a disabled waiter: " + p.Label)
	}
	s.parked = append(s.parked[:idx], s.parked[idx+1:]...)
	switch w.kind {
	case wLock:
		w.mu.writer = true
		w.mu.holder = w.label
		w.mu.holderG = w.g
	case wRLock:
		w.mu.readers++
		w.mu.rholders = append(w.mu.rholders, rholder{w.g, w.label})
	}
	s.mu.Unlock()
	s.Steps++
	close(w.gate)
	synctest.Wait()
}

// Alt is one alternative of a scheduler step.
type Alt struct {
	Label  string
	Weight int
	Do     func()
}

// Pick draws one alternative from the tape and executes it.
func (s *Sim) Pick(what string, alts []Alt) {
	ws := make([]int, len(alts))
	multi := 0
	for i, a := range alts {
		ws[i] = a.Weight
		if ws[i] <= 0 {
			ws[i] = 1
		}
		multi++
	}
	v := s.T.draw(len(alts), ws)
	s.T.note(what, len(alts), v, alts[v].Label, s.Now())
	if multi > 1 {
		s.mu.Lock()
		s.nontrivial = true
		s.mu.Unlock()
	}
	alts[v].Do()
}

// TaskAlts turns the enabled parked goroutines into alternatives.
func (s *Sim) TaskAlts(ps []Parked, weight int) []Alt {
	var out []Alt
	for _, p := range ps {
		if !p.Enabled {
			continue
		}
		p := p
		out = append(out, Alt{Label: p.Label, Weight: weight, Do: func() { s.Release(p) }})
	}
	return out
}

// Stall lets simulated time pass with everything parked as it is.
func (s *Sim) Stall(d time.Duration) {
	time.Sleep(d)
	synctest.Wait()
}

// StallAlt is the "let d of simulated time pass" alternative.
func (s *Sim) StallAlt(d time.Duration, weight int) Alt {
	return Alt{Label: "stall " + d.String(), Weight: weight, Do: func() { s.Fault("stall"); s.Stall(d) }}
}

// Unfinished returns the names of client tasks that have not returned.
func (s *Sim) Unfinished() []string {
	s.mu.Lock()
	defer s.mu.Unlock()
	var out []string
	for _, t := range s.tasks {
		if !t.Done() {
			out = append(out, t.Name)
		}
	}
	return out
}

// BlockedReport describes parked goroutines and lock holders (for wedges).
// The signature is the set of wait-for edges that lie on a cycle of the
// goroutine wait-for graph ("waiter<-holder"), empty if there is no cycle.
func (s *Sim) BlockedReport() (string, string) {
	ps := s.Settle()
	s.mu.Lock()
	defer s.mu.Unlock()
	var lines []string
	type edge struct {
		from, to uint64
		txt      string
	}
	var edges []edge
	for _, p := range ps {
		w := p.w
		switch w.kind {
		case wLock, wRLock:
			if p.Enabled {
				lines = append(lines, fmt.Sprintf("%s parked (lock free)", w.label))
				continue
			}
			var held []string
			if w.mu.writer {
				held = append(held, w.mu.holder)
				edges = append(edges, edge{w.g, w.mu.holderG, w.label + "<-" + w.mu.holder})
			}
			for _, rh := range w.mu.rholders {
				if w.kind == wRLock {
					continue // readers do not block readers
				}
				held = append(held, "R:"+rh.label)
				edges = append(edges, edge{w.g, rh.g, w.label + "<-R:" + rh.label})
			}
			if w.kind == wRLock && s.WriterPref {
				for _, o := range s.parked {
					if o.kind == wLock && o.mu == w.mu && o.seq < w.seq {
						held = append(held, "W-waiting:"+o.label)
						edges = append(edges, edge{w.g, o.g, w.label + "<-W-waiting:" + o.label})
					}
				}
			}
			lines = append(lines, fmt.Sprintf("%s waits for mutex held by [%s]", w.label, strings.Join(held, ",")))
		default:
			lines = append(lines, fmt.Sprintf("%s parked (enabled=%v)", w.label, p.Enabled))
		}
	}
	// an edge u->v is on a cycle iff u is reachable from v
	adj := map[uint64][]uint64{}
	for _, e := range edges {
		adj[e.from] = append(adj[e.from], e.to)
	}
	reach := func(from, to uint64) bool {
		seen := map[uint64]bool{}
		st := []uint64{from}
		for len(st) > 0 {
			x := st[len(st)-1]
			st = st[:len(st)-1]
			if x == to {
				return true
			}
			if seen[x] {
				continue
			}
			seen[x] = true
			st = append(st, adj[x]...)
		}
		return false
	}
	set := map[string]bool{}
	for _, e := range edges {
		if reach(e.to, e.from) {
			set[e.txt] = true
		}
	}
	var sig []string
	for k := range set {
		sig = append(sig, k)
	}
	sort.Strings(sig)
	return strings.Join(lines, "; "), strings.Join(sig, " | ")
}

// Drain releases parked goroutines first-come-first-served until none is
// enabled or the budget is spent; used at the end of a run so that real code
// can unwind.
func (s *Sim) Drain(budget int) {
	for i := 0; i < budget; i++ {
		ps := s.Settle()
		var pick *Parked
		for j := range ps {
			if ps[j].Enabled && (pick == nil || ps[j].w.seq < pick.w.seq) {
				pick = &ps[j]
			}
		}
		if pick == nil {
			return
		}
		s.Release(*pick)
	}
}

// DrainIf is Drain restricted to parked goroutines whose label passes keep; the others stay parked.
func (s *Sim) DrainIf(budget int, keep func(label string) bool) {
	for i := 0; i < budget; i++ {
		ps := s.Settle()
		var pick *Parked
		for j := range ps {
			if ps[j].Enabled && keep(ps[j].Label) && (pick == nil || ps[j].w.seq < pick.w.seq) {
				pick = &ps[j]
			}
		}
		if pick == nil {
			return
		}
		s.Release(*pick)
	}
}

// Do runs fn in a task and schedules first-come-first-served until it has
// returned; for setup and probing code of the driver that crosses yield
// points. It reports whether fn finished within the step budget.
func (s *Sim) Do(name string, fn func()) bool {
	t := s.Go(name, fn)
	for i := 0; i < 5000 && !t.Done(); i++ {
		ps := s.Settle()
		var pick *Parked
		for j := range ps {
			if ps[j].Enabled && (pick == nil || ps[j].w.seq < pick.w.seq) {
				pick = &ps[j]
			}
		}
		if pick == nil {
			break
		}
		s.Release(*pick)
	}
	return t.Done()
}

// DoSelf is Do with a preference: while fn's own task can proceed only it is released, other parked
// goroutines stay where they are (so that windows opened by them stay open); they are released
// first-come-first-served only when fn's task is blocked behind one of them.
func (s *Sim) DoSelf(name string, fn func()) bool {
	t := s.Go(name, fn)
	for i := 0; i < 5000 && !t.Done(); i++ {
		ps := s.Settle()
		var pick *Parked
		for j := range ps {
			if ps[j].Enabled && ps[j].w.task == t {
				pick = &ps[j]
				break
			}
		}
		if pick == nil {
			for j := range ps {
				if ps[j].Enabled && (pick == nil || ps[j].w.seq < pick.w.seq) {
					pick = &ps[j]
				}
			}
		}
		if pick == nil {
			break
		}
		s.Release(*pick)
	}
	return t.Done()
}

// ViolateP records a violation of property prop; when the check runs for
// another property the observation is logged as a note instead (a check
// prints only violations of its own property).
func (s *Sim) ViolateP(prop, clause, sig, format string, a ...any) {
	if s.Prop == "" || s.Prop == prop {
		s.Violate(clause, sig, format, a...)
		return
	}
	s.Note("[other property %s] %s: %s", prop, clause, fmt.Sprintf(format, a...))
}
