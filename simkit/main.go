package verifsim

import (
	"encoding/json"
	"fmt"
	"os"
	"path/filepath"
	"runtime/debug"
	"sort"
	"strconv"
	"strings"
	"testing"
	"testing/synctest"
	"time"
)

// World describes one simulated world driven by Main.
type World struct {
	Prop string // property id, e.g. "C17"
	Name string // world name, e.g. "W-PEERS"
	// Run executes one simulated run; it is the bubble's main goroutine and
	// acts as the scheduler driver. Every choice must come from s.
	Run  func(s *Sim)
	Real []string
	Stub []string
}

// RunResult is what one execution produced.
type RunResult struct {
	Viol       *Violation
	Steps      int
	SimNs      int64
	Faults     map[string]int
	Probes     map[string]int
	TraceHash  uint64
	Nontrivial bool
	Trace      []TraceEntry
	Notes      []string
	Cfg        map[string]any
	Tape       []uint32
	HarnessErr string
}

// ReplayFile is the on-disk form of a (minimised) failing run.
type ReplayFile struct {
	Property     string         `json:"property"`
	World        string         `json:"world"`
	Seed         uint64         `json:"seed"`
	Run          uint64         `json:"run"`
	Clause       string         `json:"clause"`
	Sig          string         `json:"sig"`
	Detail       string         `json:"detail"`
	Tape         []uint32       `json:"tape"`
	OrigTapeLen  int            `json:"orig_tape_len"`
	TraceHash    string         `json:"trace_hash"`
	ReplayStable bool           `json:"replay_stable"`
	Cfg          map[string]any `json:"cfg"`
	Faults       map[string]int `json:"faults"`
	Trace        []TraceEntry   `json:"trace"`
	Notes        []string       `json:"notes"`
	ShrinkRuns   int            `json:"shrink_runs"`
}

// ProcOut is the per-process result merged by bin/vcheck.
type ProcOut struct {
	Property    string           `json:"property"`
	World       string           `json:"world"`
	Seed        uint64           `json:"seed"`
	First       uint64           `json:"first"`
	Runs        int              `json:"runs"`
	Steps       int64            `json:"steps"`
	SimNs       int64            `json:"sim_ns"`
	WallS       float64          `json:"wall_s"`
	Faults      map[string]int   `json:"faults"`
	Probes      map[string]int   `json:"probes"`
	Hashes      []string         `json:"hashes"`
	NontrivHash []string         `json:"nontrivial_hashes"`
	Violations  []ViolOut        `json:"violations"`
	Samples     []map[string]any `json:"samples"`
	DetChecked  int              `json:"det_checked"`
	DetDiverged int              `json:"det_diverged"`
	HarnessErrs []string         `json:"harness_errors"`
	Real        []string         `json:"real"`
	Stub        []string         `json:"stub"`
	Replayed    *ReplayOutcome   `json:"replayed,omitempty"`
}

// ViolOut is one reported violation.
type ViolOut struct {
	Clause string `json:"clause"`
	Sig    string `json:"sig"`
	Detail string `json:"detail"`
	Replay string `json:"replay"`
	Run    uint64 `json:"run"`
	Count  int    `json:"count"`
}

// ReplayOutcome is the result of VERIF_REPLAY.
type ReplayOutcome struct {
	File       string `json:"file"`
	Reproduced bool   `json:"reproduced"`
	Clause     string `json:"clause"`
	Sig        string `json:"sig"`
	Detail     string `json:"detail"`
	SameTrace  bool   `json:"same_trace"`
	Attempts   int    `json:"attempts"`
}

func envInt(name string, def int64) int64 {
	if v := os.Getenv(name); v != "" {
		if n, err := strconv.ParseInt(v, 10, 64); err == nil {
			return n
		}
	}
	return def
}

// runOnce executes the world once on the given tape inside a fresh bubble.
func runOnce(t *testing.T, w World, tape *Tape) (res RunResult) {
	var s *Sim
	func() {
		defer func() {
			if r := recover(); r != nil {
				msg := fmt.Sprint(r)
				if strings.HasPrefix(msg, "deadlock: ") {
					return // goroutines left parked at the end of a run: expected
				}
				res.HarnessErr = msg + "\n" + string(debug.Stack())
			}
		}()
		synctest.Test(t, func(t *testing.T) {
			s = newSim(tape)
			s.Prop = w.Prop
			cur.Store(s)
			defer cur.Store(nil)
			defer func() {
				if r := recover(); r != nil {
					stack := string(debug.Stack())
					fn, file := panicSite(stack)
					if fn != "" && !strings.Contains(file, "/internal/verif") && !strings.Contains(file, "zz_verif_") {
						// the code under test panicked while the driver was calling it directly
						s.Violate("panic", fn, "code under test panicked: %v (at %s %s)", r, fn, file)
						s.Finish()
						return
					}
					res.HarnessErr = fmt.Sprint(r) + "\n" + stack
				}
			}()
			w.Run(s)
		})
	}()
	cur.Store(nil)
	if s == nil {
		return res
	}
	s.mu.Lock()
	res.Viol = s.viol
	res.Faults = s.Faults
	res.Probes = s.Probes
	res.Notes = s.Notes
	res.Cfg = s.Cfg
	res.Nontrivial = s.nontrivial || tape.branchy
	s.mu.Unlock()
	res.Steps = s.Steps
	res.SimNs = s.endNs
	if !s.finished && res.HarnessErr == "" {
		res.HarnessErr = "world.Run did not reach Sim.Finish (driver blocked or exited early)"
	}
	res.TraceHash = tape.traceHash
	res.Trace = tape.trace
	res.Tape = tape.Recorded()
	return res
}

// Finish must be called by worlds at the end of Run (records simulated time).
func (s *Sim) Finish() { s.endNs = s.Now(); s.finished = true }

func sameViolation(a *Violation, clause, sig string) bool {
	return a != nil && a.Clause == clause && a.Sig == sig
}

// minimise shrinks a failing tape while the same (clause, sig) persists.
func minimise(t *testing.T, w World, tape []uint32, clause, sig string, maxRuns int, maxWall time.Duration) ([]uint32, int) {
	runs := 0
	deadline := time.Now().Add(maxWall)
	fails := func(c []uint32) bool {
		if runs >= maxRuns || time.Now().After(deadline) {
			return false
		}
		runs++
		r := runOnce(t, w, newReplayTape(c))
		return r.HarnessErr == "" && sameViolation(r.Viol, clause, sig)
	}
	best := append([]uint32(nil), tape...)
	// strip trailing zeros (reading past the end yields 0 anyway)
	trim := func(c []uint32) []uint32 {
		for len(c) > 0 && c[len(c)-1] == 0 {
			c = c[:len(c)-1]
		}
		return c
	}
	best = trim(best)
	// 1. shortest failing prefix (binary search, then verify)
	lo, hi := 0, len(best)
	for lo < hi {
		mid := (lo + hi) / 2
		if fails(best[:mid]) {
			hi = mid
		} else {
			lo = mid + 1
		}
	}
	if hi < len(best) && fails(best[:hi]) {
		best = trim(append([]uint32(nil), best[:hi]...))
	}
	// 2. delete chunks
	for size := len(best) / 2; size >= 1; size /= 2 {
		for i := 0; i+size <= len(best); {
			c := append(append([]uint32(nil), best[:i]...), best[i+size:]...)
			if fails(c) {
				best = trim(c)
			} else {
				i += size
			}
		}
	}
	// 3. zero, then decrement entries
	for i := 0; i < len(best); i++ {
		if best[i] == 0 {
			continue
		}
		c := append([]uint32(nil), best...)
		c[i] = 0
		if fails(c) {
			best = c
			continue
		}
		for best[i] > 1 {
			c = append([]uint32(nil), best...)
			c[i] = best[i] - 1
			if !fails(c) {
				break
			}
			best = c
		}
	}
	return trim(best), runs
}

// Main runs a batch of simulated runs as configured by the environment and
// writes the per-process result JSON. Exit status is decided by bin/vcheck.
func Main(t *testing.T, w World) {
	seed := uint64(envInt("VERIF_SEED", 1))
	first := uint64(envInt("VERIF_FIRST", 0))
	nruns := int(envInt("VERIF_RUNS", 100))
	wall := time.Duration(envInt("VERIF_WALL_S", 3600)) * time.Second
	detEvery := int(envInt("VERIF_DET_EVERY", 25))
	outPath := os.Getenv("VERIF_OUT")
	replayDir := os.Getenv("VERIF_REPLAY_DIR")
	if replayDir == "" {
		replayDir = os.TempDir()
	}
	maxViol := int(envInt("VERIF_MAX_VIOL", 4))

	out := ProcOut{Property: w.Prop, World: w.Name, Seed: seed, First: first,
		Faults: map[string]int{}, Probes: map[string]int{}, Real: w.Real, Stub: w.Stub}
	startWall := time.Now()

	// real-time watchdog: a run that does not finish is a harness problem.
	progress := make(chan struct{}, 1)
	go func() {
		limit := time.Duration(envInt("VERIF_WATCHDOG_S", 120)) * time.Second
		for {
			select {
			case _, ok := <-progress:
				if !ok {
					return
				}
			case <-time.After(limit):
				fmt.Fprintf(os.Stderr, "VERIF-WATCHDOG: run did not finish within %v of real time\n", limit)
				debug.SetTraceback("all")
				buf := make([]byte, 1<<20)
				n := runtimeStack(buf)
				os.Stderr.Write(buf[:n])
				os.Exit(2)
			}
		}
	}()
	defer close(progress)

	write := func() {
		out.WallS = time.Since(startWall).Seconds()
		if outPath != "" {
			b, _ := json.MarshalIndent(out, "", " ")
			_ = os.WriteFile(outPath, b, 0o644)
		}
	}

	if rp := os.Getenv("VERIF_REPLAY"); rp != "" {
		b, err := os.ReadFile(rp)
		if err != nil {
			t.Fatalf("replay file: %v", err)
		}
		var rf ReplayFile
		if err := json.Unmarshal(b, &rf); err != nil {
			t.Fatalf("replay file: %v", err)
		}
		// A replay is one execution of the recorded tape. Where a world has residual nondeterminism (wake
		// order inside goroutines the scheduler does not own) a single attempt may take another path; the
		// replay is then repeated a few times and the number of attempts is reported.
		var r RunResult
		attempts := 0
		for tries := int(envInt("VERIF_REPLAY_TRIES", 5)); attempts < tries; {
			attempts++
			r = runOnce(t, w, newReplayTape(rf.Tape))
			if r.HarnessErr != "" || (r.Viol != nil && r.Viol.Clause == rf.Clause && r.Viol.Sig == rf.Sig) {
				break
			}
		}
		for _, n := range r.Notes {
			fmt.Println("replay-note:", n)
		}
		ro := &ReplayOutcome{File: rp, Attempts: attempts}
		if r.HarnessErr != "" {
			out.HarnessErrs = append(out.HarnessErrs, r.HarnessErr)
		}
		if r.Viol != nil {
			ro.Clause, ro.Sig, ro.Detail = r.Viol.Clause, r.Viol.Sig, r.Viol.Detail
			ro.Reproduced = r.Viol.Clause == rf.Clause && r.Viol.Sig == rf.Sig
			out.Violations = append(out.Violations, ViolOut{Clause: r.Viol.Clause, Sig: r.Viol.Sig, Detail: r.Viol.Detail, Replay: rp, Run: rf.Run, Count: 1})
		}
		ro.SameTrace = fmt.Sprintf("%016x", r.TraceHash) == rf.TraceHash
		out.Replayed = ro
		out.Runs = 1
		write()
		return
	}

	hashes := map[uint64]bool{}
	nthashes := map[uint64]bool{}
	seen := map[string]int{} // clause|sig -> index in out.Violations
	for i := 0; i < nruns; i++ {
		if time.Since(startWall) > wall {
			break
		}
		select {
		case progress <- struct{}{}:
		default:
		}
		run := first + uint64(i)
		tape := newGenTape(seed, run)
		r := runOnce(t, w, tape)
		out.Runs++
		out.Steps += int64(r.Steps)
		out.SimNs += r.SimNs
		for k, v := range r.Faults {
			out.Faults[k] += v
		}
		for k, v := range r.Probes {
			out.Probes[k] += v
		}
		hashes[r.TraceHash] = true
		if r.Nontrivial {
			nthashes[r.TraceHash] = true
		}
		if r.HarnessErr != "" {
			if len(out.HarnessErrs) < 5 {
				out.HarnessErrs = append(out.HarnessErrs, fmt.Sprintf("seed=%d run=%d: %s", seed, run, r.HarnessErr))
			}
			continue
		}
		if len(out.Samples) < 3 && r.Nontrivial && (i%7 == 0 || i < 3) {
			out.Samples = append(out.Samples, sampleOf(run, r))
		}
		if detEvery > 0 && i%detEvery == 0 {
			r2 := runOnce(t, w, newGenTape(seed, run))
			out.DetChecked++
			if r2.TraceHash != r.TraceHash {
				out.DetDiverged++
			}
		}
		if r.Viol == nil {
			continue
		}
		key := r.Viol.Clause + "|" + r.Viol.Sig
		if idx, ok := seen[key]; ok {
			out.Violations[idx].Count++
			continue
		}
		if len(out.Violations) >= maxViol {
			continue
		}
		// record the violation at once with the unminimised tape (a later crash of the process must
		// not lose it), then minimise and overwrite
		{
			rf0 := ReplayFile{Property: w.Prop, World: w.Name, Seed: seed, Run: run, Clause: r.Viol.Clause, Sig: r.Viol.Sig,
				Detail: r.Viol.Detail, Tape: r.Tape, OrigTapeLen: len(r.Tape), TraceHash: fmt.Sprintf("%016x", r.TraceHash),
				Cfg: r.Cfg, Faults: r.Faults, Trace: r.Trace, Notes: r.Notes}
			p0 := filepath.Join(replayDir, fmt.Sprintf("%s-%d-%d-%016x.json", w.Prop, seed, run, r.TraceHash))
			b0, _ := json.MarshalIndent(rf0, "", " ")
			_ = os.MkdirAll(replayDir, 0o755)
			_ = os.WriteFile(p0, b0, 0o644)
			seen[key] = len(out.Violations)
			out.Violations = append(out.Violations, ViolOut{Clause: r.Viol.Clause, Sig: r.Viol.Sig, Detail: r.Viol.Detail, Replay: p0, Run: run, Count: 1})
			write()
		}
		minTape, sruns := minimise(t, w, r.Tape, r.Viol.Clause, r.Viol.Sig,
			int(envInt("VERIF_SHRINK_RUNS", 400)), time.Duration(envInt("VERIF_SHRINK_S", 30))*time.Second)
		select {
		case progress <- struct{}{}:
		default:
		}
		fr := runOnce(t, w, newReplayTape(minTape))
		fr2 := runOnce(t, w, newReplayTape(minTape))
		use := fr
		if !sameViolation(fr.Viol, r.Viol.Clause, r.Viol.Sig) {
			// minimised tape did not reproduce: fall back to the original tape
			minTape = r.Tape
			use = r
		}
		rf := ReplayFile{Property: w.Prop, World: w.Name, Seed: seed, Run: run,
			Clause: use.Viol.Clause, Sig: use.Viol.Sig, Detail: use.Viol.Detail,
			Tape: minTape, OrigTapeLen: len(r.Tape), TraceHash: fmt.Sprintf("%016x", use.TraceHash),
			ReplayStable: sameViolation(fr.Viol, r.Viol.Clause, r.Viol.Sig) && sameViolation(fr2.Viol, r.Viol.Clause, r.Viol.Sig) && fr.TraceHash == fr2.TraceHash,
			Cfg:          use.Cfg, Faults: use.Faults, Trace: use.Trace, Notes: use.Notes, ShrinkRuns: sruns}
		name := fmt.Sprintf("%s-%d-%d-%016x.json", w.Prop, seed, run, use.TraceHash)
		path := filepath.Join(replayDir, name)
		b, _ := json.MarshalIndent(rf, "", " ")
		_ = os.MkdirAll(replayDir, 0o755)
		_ = os.WriteFile(path, b, 0o644)
		if p0 := filepath.Join(replayDir, fmt.Sprintf("%s-%d-%d-%016x.json", w.Prop, seed, run, r.TraceHash)); p0 != path {
			_ = os.Remove(p0) // the unminimised early copy is superseded
		}
		vi := seen[key]
		cnt := out.Violations[vi].Count
		out.Violations[vi] = ViolOut{Clause: use.Viol.Clause, Sig: use.Viol.Sig, Detail: use.Viol.Detail, Replay: path, Run: run, Count: cnt}
		write()
	}
	for h := range hashes {
		out.Hashes = append(out.Hashes, fmt.Sprintf("%016x", h))
	}
	for h := range nthashes {
		out.NontrivHash = append(out.NontrivHash, fmt.Sprintf("%016x", h))
	}
	sort.Strings(out.Hashes)
	sort.Strings(out.NontrivHash)
	write()
}

func sampleOf(run uint64, r RunResult) map[string]any {
	var picks []string
	for _, e := range r.Trace {
		p := e.Label
		if e.Pick != "" {
			p += "=" + e.Pick
		} else {
			p += "=" + strconv.Itoa(e.V)
		}
		picks = append(picks, p)
		if len(picks) >= 60 {
			picks = append(picks, "...")
			break
		}
	}
	return map[string]any{"run": run, "cfg": r.Cfg, "steps": r.Steps, "sim_time": time.Duration(r.SimNs).String(),
		"faults": r.Faults, "decisions": picks, "tape_len": len(r.Tape)}
}
