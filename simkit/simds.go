package verifsim

import (
	"context"
	"errors"
	"sort"
	"strings"
	"sync"

	"github.com/ipfs/go-datastore"
	dsq "github.com/ipfs/go-datastore/query"
)

// SimDS is an in-memory datastore with a durable / volatile split and
// per-instance handles: a crashed node's handle can no longer write, a
// restarted node gets a fresh handle over the surviving (durable) content.
// Optional yield points make every Put/Get/Sync a scheduler decision.
type SimDS struct {
	mu      sync.Mutex
	durable map[string][]byte
	// volatile holds writes made through a handle with WriteBack=true that
	// were not yet synced; lost at a crash.
	volatile map[string]*[]byte // nil slice pointer = pending delete
	Puts     int
}

// NewSimDS returns an empty simulated datastore.
func NewSimDS() *SimDS {
	return &SimDS{durable: map[string][]byte{}, volatile: map[string]*[]byte{}}
}

// Crash drops everything that was not made durable.
func (d *SimDS) Crash() {
	d.mu.Lock()
	d.volatile = map[string]*[]byte{}
	d.mu.Unlock()
}

// Snapshot returns a copy of the durable content (for diagnostics).
func (d *SimDS) Snapshot() map[string]string {
	d.mu.Lock()
	defer d.mu.Unlock()
	out := map[string]string{}
	for k, v := range d.durable {
		out[k] = string(v)
	}
	return out
}

// DSHandle is one node instance's view of a SimDS.
type DSHandle struct {
	ds *SimDS
	// Dead handles reject writes (the instance crashed or was abandoned).
	dead bool
	// YieldOps makes Put/Delete/Sync yield points when true (and Get, with YieldGets).
	YieldOps  bool
	YieldGets bool
	// WriteBack keeps writes volatile until Sync (models a write-back cache).
	WriteBack bool
	// FailPut, if set, is consulted for every Put; a non-nil error is returned instead.
	FailPut func(key string) error
	// NoYieldUnder disables yields (e.g. while the caller holds a native lock).
	Label string
}

// Handle returns a new live handle.
func (d *SimDS) Handle(label string) *DSHandle { return &DSHandle{ds: d, Label: label} }

// Kill marks the handle dead.
func (h *DSHandle) Kill() {
	h.ds.mu.Lock()
	h.dead = true
	h.ds.mu.Unlock()
}

var errDeadHandle = errors.New("simds: handle of a crashed instance")

var _ datastore.Batching = (*DSHandle)(nil)

func (h *DSHandle) yield(op string, key datastore.Key) {
	if h.YieldOps && (op != "get" || h.YieldGets) {
		Yield("ds." + op + " " + key.String())
	}
}

func (h *DSHandle) Get(_ context.Context, key datastore.Key) ([]byte, error) {
	h.yield("get", key)
	h.ds.mu.Lock()
	defer h.ds.mu.Unlock()
	if v, ok := h.ds.volatile[key.String()]; ok {
		if v == nil {
			return nil, datastore.ErrNotFound
		}
		return append([]byte(nil), (*v)...), nil
	}
	v, ok := h.ds.durable[key.String()]
	if !ok {
		return nil, datastore.ErrNotFound
	}
	return append([]byte(nil), v...), nil
}

func (h *DSHandle) Has(ctx context.Context, key datastore.Key) (bool, error) {
	_, err := h.Get(ctx, key)
	if errors.Is(err, datastore.ErrNotFound) {
		return false, nil
	}
	return err == nil, err
}

func (h *DSHandle) GetSize(ctx context.Context, key datastore.Key) (int, error) {
	v, err := h.Get(ctx, key)
	if err != nil {
		return -1, err
	}
	return len(v), nil
}

func (h *DSHandle) Put(_ context.Context, key datastore.Key, value []byte) error {
	h.yield("put", key)
	if h.FailPut != nil {
		if err := h.FailPut(key.String()); err != nil {
			return err
		}
	}
	h.ds.mu.Lock()
	defer h.ds.mu.Unlock()
	if h.dead {
		return errDeadHandle
	}
	h.ds.Puts++
	v := append([]byte(nil), value...)
	if h.WriteBack {
		h.ds.volatile[key.String()] = &v
		return nil
	}
	delete(h.ds.volatile, key.String())
	h.ds.durable[key.String()] = v
	return nil
}

func (h *DSHandle) Delete(_ context.Context, key datastore.Key) error {
	h.yield("delete", key)
	h.ds.mu.Lock()
	defer h.ds.mu.Unlock()
	if h.dead {
		return errDeadHandle
	}
	if h.WriteBack {
		h.ds.volatile[key.String()] = nil
		return nil
	}
	delete(h.ds.volatile, key.String())
	delete(h.ds.durable, key.String())
	return nil
}

func (h *DSHandle) Sync(_ context.Context, prefix datastore.Key) error {
	h.yield("sync", prefix)
	h.ds.mu.Lock()
	defer h.ds.mu.Unlock()
	if h.dead {
		return errDeadHandle
	}
	for k, v := range h.ds.volatile {
		if !strings.HasPrefix(k, prefix.String()) && prefix.String() != "/" {
			continue
		}
		if v == nil {
			delete(h.ds.durable, k)
		} else {
			h.ds.durable[k] = *v
		}
		delete(h.ds.volatile, k)
	}
	return nil
}

func (h *DSHandle) Close() error { return nil }

func (h *DSHandle) Query(_ context.Context, q dsq.Query) (dsq.Results, error) {
	h.ds.mu.Lock()
	merged := map[string][]byte{}
	for k, v := range h.ds.durable {
		merged[k] = v
	}
	for k, v := range h.ds.volatile {
		if v == nil {
			delete(merged, k)
		} else {
			merged[k] = *v
		}
	}
	h.ds.mu.Unlock()
	keys := make([]string, 0, len(merged))
	for k := range merged {
		keys = append(keys, k)
	}
	sort.Strings(keys)
	entries := make([]dsq.Entry, 0, len(keys))
	for _, k := range keys {
		entries = append(entries, dsq.Entry{Key: k, Value: merged[k], Size: len(merged[k])})
	}
	return dsq.NaiveQueryApply(q, dsq.ResultsWithEntries(q, entries)), nil
}

type simBatch struct {
	h   *DSHandle
	ops []func(context.Context) error
}

func (h *DSHandle) Batch(context.Context) (datastore.Batch, error) { return &simBatch{h: h}, nil }

func (b *simBatch) Put(_ context.Context, key datastore.Key, value []byte) error {
	v := append([]byte(nil), value...)
	b.ops = append(b.ops, func(ctx context.Context) error { return b.h.Put(ctx, key, v) })
	return nil
}

func (b *simBatch) Delete(_ context.Context, key datastore.Key) error {
	b.ops = append(b.ops, func(ctx context.Context) error { return b.h.Delete(ctx, key) })
	return nil
}

func (b *simBatch) Commit(ctx context.Context) error {
	for _, op := range b.ops {
		if err := op(ctx); err != nil {
			return err
		}
	}
	b.ops = nil
	return nil
}
