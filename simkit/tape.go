// Package verifsim is the deterministic-simulation kit injected into the
// celestia-node module at check build time (go test -overlay). It does not
// exist on disk in /repo. See /verif/DESIGN.md §2.
package verifsim

import (
	"fmt"
	"hash/fnv"
	"math/rand/v2"
)

// Tape is the single source of every choice of a run. In generating mode it
// draws from a PCG seeded by (seed, run index) and records each outcome; in
// replay mode it returns the recorded values (0 past the end, reduced modulo
// the number of alternatives so that shrunk tapes stay valid).
type Tape struct {
	rng    *rand.Rand
	replay []uint32
	isRep  bool
	rec    []uint32
	pos    int

	trace     []TraceEntry
	traceHash uint64
	branchy   bool // at least one choice had >1 alternative and picked non-zero
}

// TraceEntry is one decision of a run.
type TraceEntry struct {
	Pos   int    `json:"pos"`
	Label string `json:"label"`
	N     int    `json:"n"`
	V     int    `json:"v"`
	Pick  string `json:"pick,omitempty"`
	SimNs int64  `json:"t_ns"`
}

const maxTraceKeep = 4000

func newGenTape(seed uint64, run uint64) *Tape {
	return &Tape{rng: rand.New(rand.NewPCG(seed, run*0x9E3779B97F4A7C15+0xD1B54A32D192ED03)), traceHash: 1469598103934665603}
}

func newReplayTape(vals []uint32) *Tape {
	return &Tape{replay: append([]uint32(nil), vals...), isRep: true, traceHash: 1469598103934665603}
}

func (t *Tape) note(label string, n, v int, pick string, now int64) {
	h := fnv.New64a()
	fmt.Fprintf(h, "%d|%s|%d|%d|%s", t.traceHash, label, n, v, pick)
	t.traceHash = h.Sum64()
	if len(t.trace) < maxTraceKeep {
		t.trace = append(t.trace, TraceEntry{Pos: t.pos - 1, Label: label, N: n, V: v, Pick: pick, SimNs: now})
	}
	if n > 1 && v != 0 {
		t.branchy = true
	}
}

// draw returns the next value in [0,n). weights (may be nil) bias generation
// only; replay ignores them.
func (t *Tape) draw(n int, weights []int) int {
	if n <= 0 {
		panic("verifsim: Choose with n<=0")
	}
	var v int
	if t.isRep {
		if t.pos < len(t.replay) {
			v = int(t.replay[t.pos] % uint32(n))
		}
	} else if n > 1 {
		if weights == nil {
			v = t.rng.IntN(n)
		} else {
			tot := 0
			for _, w := range weights {
				tot += w
			}
			if tot <= 0 {
				v = 0
			} else {
				r := t.rng.IntN(tot)
				for i, w := range weights {
					if r < w {
						v = i
						break
					}
					r -= w
				}
			}
		}
	}
	t.rec = append(t.rec, uint32(v))
	t.pos++
	return v
}

// Recorded returns the values consumed so far.
func (t *Tape) Recorded() []uint32 { return append([]uint32(nil), t.rec...) }
