package verifsim

import (
	"cmp"
	"runtime"
	"slices"
)

func runtimeStack(buf []byte) int { return runtime.Stack(buf, true) }

// goid returns the id of the calling goroutine (parsed from its stack header).
func goid() uint64 {
	var buf [40]byte
	n := runtime.Stack(buf[:], false)
	// "goroutine 123 ["
	var id uint64
	for _, c := range buf[10:n] {
		if c < '0' || c > '9' {
			break
		}
		id = id*10 + uint64(c-'0')
	}
	return id
}

// SortedKeys returns the keys of m in ascending order (determinism aid for
// rewritten map iterations; see verifrewrite -sort).
func SortedKeys[M ~map[K]V, K cmp.Ordered, V any](m M) []K {
	keys := make([]K, 0, len(m))
	for k := range m {
		keys = append(keys, k)
	}
	slices.Sort(keys)
	return keys
}

// GoID returns the id of the calling goroutine (for worlds that mark individual goroutines).
func GoID() uint64 { return goid() }
