// Package verifhdr is the simulated go-header store / subscriber used by the
// worlds that need a header chain (injected by overlay as internal/verifhdr).
package verifhdr

import (
	"context"
	"encoding/binary"
	"fmt"
	"sync"
	"time"

	"github.com/cometbft/cometbft/crypto/tmhash"
	core "github.com/cometbft/cometbft/types"

	"github.com/celestiaorg/celestia-app/v9/pkg/da"
	libhead "github.com/celestiaorg/go-header"

	"github.com/celestiaorg/celestia-node/header"
)

// MakeHeader builds a plain (unsigned) extended header.
func MakeHeader(height uint64, t time.Time, dah *da.DataAvailabilityHeader) *header.ExtendedHeader {
	if dah == nil {
		m := da.MinDataAvailabilityHeader()
		dah = &m
	}
	var hb [8]byte
	binary.BigEndian.PutUint64(hb[:], height)
	return &header.ExtendedHeader{
		RawHeader: header.RawHeader{ChainID: "verif", Height: int64(height), Time: t, DataHash: dah.Hash()},
		Commit:    &core.Commit{Height: int64(height), BlockID: core.BlockID{Hash: tmhash.Sum(hb[:])}},
		DAH:       dah,
	}
}

// Chain is a simulated header store whose head and tail the run moves.
type Chain struct {
	mu       sync.Mutex
	hdrs     map[uint64]*header.ExtendedHeader
	head     uint64
	tail     uint64
	onDelete []func(ctx context.Context, height uint64) error
	subs     []*Sub
	// GetHook, if set, runs at the start of every GetByHeight (seam / failure injection).
	GetHook func(ctx context.Context, height uint64) error
	// AfterDelete, if set, is called after a header left the store at the tail.
	AfterDelete func(height uint64)
	// RangeHook may truncate the result of GetRangeByHeight (legal-but-unusual prefix answers).
	RangeHook func(from, to uint64, n int) int
}

// NewChain creates a chain holding the given headers (contiguous heights).
func NewChain() *Chain { return &Chain{hdrs: map[uint64]*header.ExtendedHeader{}} }

// Add appends a header as the new head (or fills a height) without notifying subscribers.
func (c *Chain) Add(h *header.ExtendedHeader) {
	c.mu.Lock()
	defer c.mu.Unlock()
	c.hdrs[h.Height()] = h
	if h.Height() > c.head {
		c.head = h.Height()
	}
	if c.tail == 0 || h.Height() < c.tail {
		c.tail = h.Height()
	}
}

// Announce delivers a header to all live subscriptions (it need not be in the store).
func (c *Chain) Announce(h *header.ExtendedHeader) {
	c.mu.Lock()
	subs := append([]*Sub(nil), c.subs...)
	c.mu.Unlock()
	for _, s := range subs {
		s.push(h)
	}
}

// HeadHeight / TailHeight report the current bounds.
func (c *Chain) HeadHeight() uint64 { c.mu.Lock(); defer c.mu.Unlock(); return c.head }
func (c *Chain) TailHeight() uint64 { c.mu.Lock(); defer c.mu.Unlock(); return c.tail }

// HeaderAt returns the header at height (nil if absent), without hooks.
func (c *Chain) HeaderAt(height uint64) *header.ExtendedHeader {
	c.mu.Lock()
	defer c.mu.Unlock()
	return c.hdrs[height]
}

// AdvanceTail removes headers below newTail, calling the registered OnDelete
// handlers first (each header stays readable while its handler runs).
func (c *Chain) AdvanceTail(ctx context.Context, newTail uint64) error {
	for {
		c.mu.Lock()
		t := c.tail
		hs := append([]func(context.Context, uint64) error(nil), c.onDelete...)
		c.mu.Unlock()
		if t >= newTail {
			return nil
		}
		for _, fn := range hs {
			if err := fn(ctx, t); err != nil {
				return err
			}
		}
		c.mu.Lock()
		delete(c.hdrs, t)
		c.tail = t + 1
		c.mu.Unlock()
		if c.AfterDelete != nil {
			c.AfterDelete(t)
		}
	}
}

var _ libhead.Store[*header.ExtendedHeader] = (*Chain)(nil)

func (c *Chain) Head(context.Context, ...libhead.HeadOption[*header.ExtendedHeader]) (*header.ExtendedHeader, error) {
	c.mu.Lock()
	defer c.mu.Unlock()
	if h, ok := c.hdrs[c.head]; ok {
		return h, nil
	}
	return nil, libhead.ErrEmptyStore
}

func (c *Chain) Tail(context.Context) (*header.ExtendedHeader, error) {
	c.mu.Lock()
	defer c.mu.Unlock()
	if h, ok := c.hdrs[c.tail]; ok {
		return h, nil
	}
	return nil, libhead.ErrEmptyStore
}

func (c *Chain) Get(_ context.Context, hash libhead.Hash) (*header.ExtendedHeader, error) {
	c.mu.Lock()
	defer c.mu.Unlock()
	for _, h := range c.hdrs {
		if string(h.Hash()) == string(hash) {
			return h, nil
		}
	}
	return nil, libhead.ErrNotFound
}

func (c *Chain) GetByHeight(ctx context.Context, height uint64) (*header.ExtendedHeader, error) {
	if c.GetHook != nil {
		if err := c.GetHook(ctx, height); err != nil {
			return nil, err
		}
	}
	c.mu.Lock()
	defer c.mu.Unlock()
	if h, ok := c.hdrs[height]; ok {
		return h, nil
	}
	return nil, fmt.Errorf("height %d: %w", height, libhead.ErrNotFound)
}

func (c *Chain) GetRangeByHeight(ctx context.Context, from *header.ExtendedHeader, to uint64) ([]*header.ExtendedHeader, error) {
	return c.getRange(ctx, from.Height()+1, to)
}

func (c *Chain) GetRange(ctx context.Context, from, to uint64) ([]*header.ExtendedHeader, error) {
	return c.getRange(ctx, from, to)
}

func (c *Chain) getRange(_ context.Context, from, to uint64) ([]*header.ExtendedHeader, error) {
	c.mu.Lock()
	defer c.mu.Unlock()
	if from >= to {
		return nil, libhead.ErrRangeMixUp
	}
	var out []*header.ExtendedHeader
	for h := from; h < to; h++ {
		hd, ok := c.hdrs[h]
		if !ok {
			break
		}
		out = append(out, hd)
	}
	if len(out) == 0 {
		return nil, fmt.Errorf("range [%d:%d): %w", from, to, libhead.ErrNotFound)
	}
	if c.RangeHook != nil {
		if n := c.RangeHook(from, to, len(out)); n >= 1 && n < len(out) {
			out = out[:n]
		}
	}
	return out, nil
}

func (c *Chain) Height() uint64 { return c.HeadHeight() }

func (c *Chain) Has(ctx context.Context, hash libhead.Hash) (bool, error) {
	_, err := c.Get(ctx, hash)
	return err == nil, nil
}

func (c *Chain) HasAt(_ context.Context, height uint64) bool {
	c.mu.Lock()
	defer c.mu.Unlock()
	_, ok := c.hdrs[height]
	return ok
}

func (c *Chain) Append(_ context.Context, hs ...*header.ExtendedHeader) error {
	for _, h := range hs {
		c.Add(h)
	}
	return nil
}

func (c *Chain) DeleteRange(ctx context.Context, from, to uint64) error {
	return c.AdvanceTail(ctx, to)
}

func (c *Chain) OnDelete(fn func(ctx context.Context, height uint64) error) {
	c.mu.Lock()
	c.onDelete = append(c.onDelete, fn)
	c.mu.Unlock()
}

// ClearOnDelete forgets the registered handlers (a restarted node builds a new header store).
func (c *Chain) ClearOnDelete() {
	c.mu.Lock()
	c.onDelete = nil
	c.mu.Unlock()
}

// ---- subscriber

var _ libhead.Subscriber[*header.ExtendedHeader] = (*Chain)(nil)

func (c *Chain) Subscribe() (libhead.Subscription[*header.ExtendedHeader], error) {
	s := &Sub{c: c, ch: make(chan *header.ExtendedHeader, 256), done: make(chan struct{})}
	c.mu.Lock()
	c.subs = append(c.subs, s)
	c.mu.Unlock()
	return s, nil
}

func (c *Chain) SetVerifier(func(context.Context, *header.ExtendedHeader) error) error { return nil }

// CloseSubs ends every subscription (the header feed closes).
func (c *Chain) CloseSubs() {
	c.mu.Lock()
	subs := c.subs
	c.subs = nil
	c.mu.Unlock()
	for _, s := range subs {
		s.Cancel()
	}
}

// Sub is one subscription.
type Sub struct {
	c    *Chain
	ch   chan *header.ExtendedHeader
	done chan struct{}
	once sync.Once
}

func (s *Sub) push(h *header.ExtendedHeader) {
	select {
	case <-s.done:
	case s.ch <- h:
	default: // subscriber hopelessly behind: drop like pubsub would
	}
}

// ErrSubClosed is returned by NextHeader once the feed is closed.
var ErrSubClosed = fmt.Errorf("verifhdr: subscription closed")

func (s *Sub) NextHeader(ctx context.Context) (*header.ExtendedHeader, error) {
	select {
	case h := <-s.ch:
		return h, nil
	case <-s.done:
		return nil, ErrSubClosed
	case <-ctx.Done():
		return nil, ctx.Err()
	}
}

func (s *Sub) Cancel() {
	s.once.Do(func() {
		close(s.done)
		s.c.mu.Lock()
		for i, x := range s.c.subs {
			if x == s {
				s.c.subs = append(s.c.subs[:i], s.c.subs[i+1:]...)
				break
			}
		}
		s.c.mu.Unlock()
	})
}
